#!/venv/bin/python
"""One-off: extract the DDL texts of /repo/tests (DDLParser(<ddl>, **ctor).run(**run) call sites) into corpus/ddl_corpus.json.
The corpus is committed (frozen): checks do not read /repo/tests at run time."""
import ast, glob, json, os, sys
ROOT = sys.argv[1] if len(sys.argv) > 1 else "/repo/tests"
out, seen = [], set()
for f in sorted(glob.glob(ROOT + "/**/*.py", recursive=True)):
    tree = ast.parse(open(f).read())
    for fn in ast.walk(tree):
        if not isinstance(fn, ast.FunctionDef):
            continue
        env = {}
        for node in ast.walk(fn):
            if isinstance(node, ast.Assign) and len(node.targets) == 1 and isinstance(node.targets[0], ast.Name) \
                    and isinstance(node.value, ast.Constant) and isinstance(node.value.value, str):
                env[node.targets[0].id] = node.value.value
        runs = {}
        for node in ast.walk(fn):
            if isinstance(node, ast.Call) and isinstance(node.func, ast.Attribute) and node.func.attr == "run" and isinstance(node.func.value, ast.Call):
                try:
                    runs[id(node.func.value)] = {k.arg: ast.literal_eval(k.value) for k in node.keywords if k.arg}
                except Exception:
                    pass
        for node in ast.walk(fn):
            if isinstance(node, ast.Call) and getattr(node.func, "id", None) == "DDLParser" and node.args:
                a = node.args[0]
                s = a.value if isinstance(a, ast.Constant) and isinstance(a.value, str) else env.get(getattr(a, "id", None))
                if s is None:
                    continue
                try:
                    ctor = {k.arg: ast.literal_eval(k.value) for k in node.keywords if k.arg}
                except Exception:
                    ctor = {}
                run = runs.get(id(node), {})
                key = (s, json.dumps(ctor, sort_keys=True), json.dumps(run, sort_keys=True))
                if key in seen:
                    continue
                seen.add(key)
                out.append({"src": f.split("/tests/")[1] + "::" + fn.name, "ddl": s, "ctor": ctor, "run": run})
here = os.path.dirname(os.path.dirname(os.path.abspath(__file__)))
json.dump(out, open(os.path.join(here, "corpus", "ddl_corpus.json"), "w"), indent=0)
print(len(out), "items,", len(set(o["ddl"] for o in out)), "distinct texts")
