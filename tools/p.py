#!/venv/bin/python
"""dev helper: tools/p.py [-m mode] [-g] [-n] [-S] 'ddl' ...  -> parse with the scratch copy and print"""
import sys, os, pprint, json
sys.path.insert(0, os.path.dirname(os.path.dirname(os.path.abspath(__file__))))
from sdpv import loader
loader.load()
kw = {}
args = sys.argv[1:]
while args and args[0].startswith("-"):
    a = args.pop(0)
    if a == "-m": kw["output_mode"] = args.pop(0)
    elif a == "-g": kw["group_by_type"] = True
    elif a == "-n": kw["normalize_names"] = True
    elif a == "-S": kw["silent"] = False
for ddl in args:
    ddl = ddl.replace("\\n", "\n")
    r = loader.try_parse(ddl, **kw)
    print("----", repr(ddl))
    pprint.pprint(r[1] if r[0] == "ok" else r, width=160, sort_dicts=False)
