#!/venv/bin/python
"""dev helper: rewrite DESIGN.md section 8.5 (intro + kill matrix) from sensitivity/matrix.json, seeded/*/meta.json and tools/design_8_5_intro.md"""
import json, os, subprocess, sys
HERE = os.path.dirname(os.path.dirname(os.path.abspath(__file__)))
m = json.load(open(os.path.join(HERE, "sensitivity", "matrix.json")))
table = subprocess.run([sys.executable, os.path.join(HERE, "tools", "matrix_report.py")], capture_output=True, text=True).stdout
seeded = sorted(n for n in m if os.path.exists(os.path.join(HERE, "seeded", n)))
dirs = sorted(d for d in os.listdir(os.path.join(HERE, "seeded")) if os.path.exists(os.path.join(HERE, "seeded", d, "patch.diff")))
missing = [d for d in dirs if d not in m]
tgt_miss, nobody = [], []
for n in seeded:
    row = m[n]
    t = n[:3].upper()
    caught = sorted(c for c, v in row.items() if c.startswith("C") and v.get("exit") == 1)
    if row.get(t, {}).get("exit") != 1:
        tgt_miss.append("%s (caught by %s)" % (n, ", ".join(caught) if caught else "no check"))
    if not caught:
        nobody.append(n)
intro = open(os.path.join(HERE, "tools", "design_8_5_intro.md")).read()
intro = intro.replace("@TOTAL@", str(len(dirs))).replace("@TARGET_MISSES@", "; ".join(tgt_miss)).replace("@NOBODY@", ", ".join(nobody) or "none")
if missing:
    intro += "\n(not yet run: %s)\n" % ", ".join(missing)
p = os.path.join(HERE, "DESIGN.md")
s = open(p).read()
a, b = s.index("### 8.5 "), s.index("### 8.6 ")
s = s[:a] + "### 8.5 Seeded changes and kill matrix\n\n" + intro + "\n" + table + "\n" + s[b:]
open(p, "w").write(s)
print("target misses:", tgt_miss)
print("nobody:", nobody, "not run:", missing)
