#!/venv/bin/python
"""dev helper: sensitivity/matrix.json + seeded/*/meta.json -> markdown table (pasted into DESIGN.md 8.5)"""
import json, os, sys
HERE = os.path.dirname(os.path.dirname(os.path.abspath(__file__)))
m = json.load(open(os.path.join(HERE, "sensitivity", "matrix.json")))
rows = []
for name in sorted(m):
    row = m[name]
    meta = {}
    mp = os.path.join(HERE, "seeded", name, "meta.json")
    if os.path.exists(mp):
        meta = json.load(open(mp))
    target = name[:3].upper()
    det = [c for c in sorted(row) if c.startswith("C") and row[c].get("exit") == 1]
    miss = [c for c in sorted(row) if c.startswith("C") and row[c].get("exit") == 0]
    err = [c for c in sorted(row) if c.startswith("C") and row[c].get("exit") not in (0, 1)]
    summ = (meta.get("summary") or "hand-written mutant (section 4, M list)").replace("|", "/").replace("\n", " ")
    if len(summ) > 150:
        summ = summ[:147] + "..."
    t = row.get(target, {}).get("exit")
    rows.append("| %s | %s | %s | %s | %s |" % (name, summ, {1: "**caught**", 0: "missed", None: "-"}.get(t, "error"), ", ".join(c for c in det if c != target) or "-",
                                               ", ".join(miss) + ((" / error: " + ", ".join(err)) if err else "")))
print("| change | what it does | target check | also caught by | ran and stayed quiet |")
print("|---|---|---|---|---|")
print("\n".join(rows))
tot = [n for n in m if os.path.exists(os.path.join(HERE, "seeded", n))]
caught = [n for n in tot if any(v.get("exit") == 1 for k, v in m[n].items() if k.startswith("C"))]
print("\nseeded changes: %d, caught by at least one check: %d, by the target property's own check: %d" % (
    len(tot), len(caught), len([n for n in tot if m[n].get(n[:3].upper(), {}).get("exit") == 1])))
