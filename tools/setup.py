#!/venv/bin/python
"""MANIFEST.setup_cmd: make sure hypothesis and ply import; otherwise install hypothesis offline into /verif/.deps."""
import os, subprocess, sys
HERE = os.path.dirname(os.path.dirname(os.path.abspath(__file__)))
DEPS = os.path.join(HERE, ".deps")
if os.path.isdir(DEPS):
    sys.path.append(DEPS)
try:
    import ply  # noqa
except ImportError:
    sys.stderr.write("ply is not importable from %s\n" % sys.executable)
    sys.exit(1)
try:
    import hypothesis  # noqa
    print("hypothesis", hypothesis.__version__, "ok")
except ImportError:
    os.makedirs(DEPS, exist_ok=True)
    r = subprocess.call([sys.executable, "-m", "pip", "install", "--no-index", "--find-links", "/opt/veriftools/wheels",
                         "--target", DEPS, "hypothesis"])
    sys.exit(r)
