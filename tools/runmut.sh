#!/bin/bash
# dev helper: tools/runmut.sh <diff> C03 C05 ...   apply a diff to a scratch copy of /repo's package, run the quick checks against it
P=$(realpath $1)
M=$(mktemp -d /tmp/mut_XXXX)
mkdir -p $M/repo && cp -r /repo/simple_ddl_parser $M/repo/ && rm -rf $M/repo/simple_ddl_parser/__pycache__
(cd $M/repo && patch -p1 -s < $P) || { echo "PATCH FAILED $1"; rm -rf $M; exit 3; }
shift
rc=0
for c in "$@"; do
  SDPV_REPO=$M/repo SDPV_EVIDENCE_DIR=$M/evidence SDPV_REPLAY_DIR=$M/replays /venv/bin/python /verif/run_check.py $c > $M/out.txt 2>&1
  r=$?
  echo "$c exit=$r $(grep -c '^VIOLATION' $M/out.txt) violation line(s)"
  grep -E "bucket=|HARNESS" $M/out.txt | cut -c1-${MUT_COLS:-260} | head -${MUT_LINES:-4}
  tail -1 $M/out.txt | cut -c1-200
done
rm -rf $M
