#!/venv/bin/python
"""dev helper: every quick check against every benign (behaviour-preserving) change in benign/*/patch.diff; any exit != 0 is a
false alarm of the machinery. Results -> sensitivity/benign_matrix.json"""
import glob, json, os, shutil, subprocess, sys, tempfile, time
HERE = os.path.dirname(os.path.dirname(os.path.abspath(__file__)))
out_path = os.path.join(HERE, "sensitivity", "benign_matrix.json")
matrix = json.load(open(out_path)) if os.path.exists(out_path) else {}
only = set(sys.argv[1].split(",")) if len(sys.argv) > 1 else None
checks = sys.argv[2].split(",") if len(sys.argv) > 2 else ["C%02d" % i for i in range(1, 21)]
for d in sorted(glob.glob(os.path.join(HERE, "benign", "*"))):
    name = os.path.basename(d)
    if only and name not in only:
        continue
    m = tempfile.mkdtemp(prefix="ben_")
    try:
        os.makedirs(os.path.join(m, "repo"))
        shutil.copytree("/repo/simple_ddl_parser", os.path.join(m, "repo", "simple_ddl_parser"), ignore=shutil.ignore_patterns("__pycache__"))
        r = subprocess.run(["patch", "-p1", "-s", "-i", os.path.join(d, "patch.diff")], cwd=os.path.join(m, "repo"), capture_output=True)
        if r.returncode != 0:
            print(name, "PATCH FAILED", r.stdout.decode()[-300:]); matrix.setdefault(name, {})["_patch"] = "FAILED"; continue
        row = matrix.setdefault(name, {})
        for c in checks:
            if c in row and row[c]["exit"] == 0:
                continue
            env = dict(os.environ, SDPV_REPO=os.path.join(m, "repo"), SDPV_EVIDENCE_DIR=os.path.join(m, "ev"), SDPV_REPLAY_DIR=os.path.join(m, "rp"), SDPV_NO_SHRINK="1")
            t0 = time.time()
            p = subprocess.run(["/venv/bin/python", os.path.join(HERE, "run_check.py"), c], env=env, capture_output=True, timeout=7200)
            o = p.stdout.decode() + p.stderr.decode()
            buckets = [l.strip()[:300] for l in o.splitlines() if l.strip().startswith("bucket=") or "HARNESS" in l]
            row[c] = {"exit": p.returncode, "buckets": buckets[:4], "s": round(time.time() - t0, 1)}
            if p.returncode != 0:
                print("FALSE ALARM?", name, c, p.returncode, buckets[:2], flush=True)
            json.dump(matrix, open(out_path, "w"), indent=1, sort_keys=True)
        print(name, "done", {c: row[c]["exit"] for c in checks if c in row and row[c]["exit"] != 0}, flush=True)
    finally:
        shutil.rmtree(m, ignore_errors=True)
