#!/bin/bash
# dev helper: quiet-on-the-unchanged-tree sweep: every quick check under several VERIF_SEED values (fresh process each)
cd /verif
for s in ${SEEDS:-2 3 7 1234 99991}; do
  for i in $(seq -w 1 20); do
    c=C$i
    out=$(VERIF_SEED=$s SDPV_NO_SHRINK=1 SDPV_EVIDENCE_DIR=/tmp/sweep_ev /venv/bin/python run_check.py $c 2>&1); rc=$?
    if [ $rc -ne 0 ]; then echo "seed=$s $c rc=$rc"; echo "$out" | grep -E "bucket=|HARNESS|Error" | cut -c1-400 | head -4; fi
  done
  echo "seed $s done"
done
rm -rf /tmp/sweep_ev
