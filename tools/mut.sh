#!/bin/bash
# dev helper: tools/mut.sh <patchfile|-e 'sed-expr' file> -- C03 C05 ...   runs quick checks against a mutated scratch copy
set -e
M=$(mktemp -d /tmp/mut_XXXX)
cp -r /repo/simple_ddl_parser $M/
rm -rf $M/simple_ddl_parser/__pycache__
if [ "$1" = "-e" ]; then
  sed -i -e "$2" $M/simple_ddl_parser/$3
  diff -r /repo/simple_ddl_parser $M/simple_ddl_parser -x __pycache__ | head -20 || true
  shift 3
else
  (cd $M && patch -p1 -s < $1)
  shift 1
fi
[ "$1" = "--" ] && shift
for c in "$@"; do
  SDPV_REPO=$M SDPV_EVIDENCE_DIR=$M/evidence SDPV_REPLAY_DIR=$M/replays /venv/bin/python /verif/run_check.py $c 2>&1 | grep -E "VIOLATION|bucket=|quick seed|HARNESS" | cut -c1-300 | head -${MUT_LINES:-8}
done
rm -rf $M
