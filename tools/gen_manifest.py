#!/venv/bin/python
"""Regenerate MANIFEST.json from the table below (kept in one place so it stays valid)."""
import json, os, sys
HERE = os.path.dirname(os.path.dirname(os.path.abspath(__file__)))
sys.path.insert(0, HERE)

CHECKS = json.load(open(os.path.join(HERE, "tools", "checks.json")))
ALL = ["C%02d" % i for i in range(1, 21)]

def main():
    checks = []
    for pid in ALL:
        c = CHECKS.get(pid)
        if not c or not os.path.exists(os.path.join(HERE, "sdpv", "props", pid.lower() + ".py")):
            continue
        checks.append({
            "property_id": pid,
            "quick_cmd": "/venv/bin/python run_check.py %s --tier quick" % pid,
            "thorough_cmd": "/venv/bin/python run_check.py %s --tier thorough" % pid,
            "evidence_file": "evidence/%s.json" % pid,
            "replay_cmd_template": "/venv/bin/python run_check.py %s --replay {path}" % pid,
            "engine": "sdpv",
            "level_claimed": {"category": c.get("category", "exploration"), "text": c["text"], "design_ref": "DESIGN.md section 4, %s" % pid},
            "level_note": c["note"],
            "technique": c["technique"],
        })
    claimed = {c["property_id"] for c in checks}
    na = [{"property_id": p, "reason": CHECKS.get(p, {}).get("na_reason", "check not built yet in this tree; not claimed until its module exists under sdpv/props")} for p in ALL if p not in claimed]
    m = {
        "version": 1,
        "setup_cmd": "/venv/bin/python tools/setup.py",
        "hooks": {
            "guard": "SIMPLE_DDL_PARSER_VERIF",
            "enable": "no source hooks are used: checks import a scratch copy of /repo's working tree and wrap PLY API boundaries at run time inside the check process (DESIGN.md 2.1)",
            "baseline_off_cmd": "cd /repo && /venv/bin/python -m pytest -ra -q -p no:cacheprovider --timeout=900 --continue-on-collection-errors",
            "source_commits": [],
            "add_only": True,
        },
        "engines": [{"name": "sdpv", "path": "sdpv/engine.py", "serves_properties": sorted(claimed),
                     "kind_free_text": "property-based testing: seeded Hypothesis generators sharded over 16 processes, reference-model / metamorphic / stateful / differential oracles, collect-then-shrink, replay files, known-findings carve-outs"}],
        "checks": checks,
        "not_applicable": na,
        "notes": "All checks: /venv/bin/python run_check.py <ID> [--tier quick|thorough] [--replay FILE]; VERIF_SEED and VERIF_TIER honoured; exit 0 held / 1 VIOLATION / 2 harness error. Known findings: known_findings.json (never written at run time).",
    }
    if not na:
        m.pop("not_applicable")
        m["not_applicable"] = []
    with open(os.path.join(HERE, "MANIFEST.json"), "w") as f:
        json.dump(m, f, indent=1)
    try:
        import jsonschema
        jsonschema.validate(m, json.load(open("/root/.vp/MANIFEST.schema.json")))
        print("manifest valid;", len(checks), "checks,", len(na), "not applicable")
    except ImportError:
        print("written (jsonschema not available);", len(checks), "checks")

main()
