#!/bin/bash
# dev helper: tools/seed_verify.sh <dir with patch.diff demo.py meta.json> -> verifies a seeded change in scratch worktree /tmp/wt/M
# (patch applies, existing tests pass with it, demo fails with it and passes without it). Never touches /repo.
D=$(realpath $1); W=/tmp/wt/M
git -C $W checkout -q -- . ; git -C $W clean -fdq
git -C $W apply $D/patch.diff || { echo "APPLY-FAILED"; exit 3; }
(cd $W && /venv/bin/python -m pytest -q -p no:cacheprovider -x tests 2>&1 | tail -1)
(cd $W && PYTHONPATH=$W /venv/bin/python $D/demo.py >/dev/null 2>&1); with=$?
git -C $W checkout -q -- . ; git -C $W clean -fdq
(cd $W && PYTHONPATH=$W /venv/bin/python $D/demo.py >/dev/null 2>&1); without=$?
git -C $W checkout -q -- . ; git -C $W clean -fdq
echo "demo exit with change=$with without=$without"
