#!/bin/bash
# dev helper: every thorough tier once on the unchanged tree (evidence into a scratch dir), one summary line each
cd /verif
for i in $(seq -w 1 20); do
  c=C$i
  t0=$(date +%s)
  out=$(SDPV_EVIDENCE_DIR=/tmp/th_ev SDPV_REPLAY_DIR=/tmp/th_rp /venv/bin/python run_check.py $c --tier thorough 2>&1); rc=$?
  echo "$c rc=$rc $(( $(date +%s) - t0 ))s | $(echo "$out" | tail -1 | cut -c1-200)"
  [ $rc -ne 0 ] && echo "$out" | grep -E "bucket=|HARNESS|Error" | cut -c1-600 | head -6
done
