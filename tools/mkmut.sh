#!/bin/bash
# dev helper: tools/mkmut.sh <name> <file-relative-to-package> <python-regex-old> <new>   -> sensitivity/mutants/<name>.diff
# edits the scratch worktree /tmp/wt/M (never /repo), saves the diff, reverts.
set -e
W=/tmp/wt/M
git -C $W checkout -q -- .
/venv/bin/python - "$W/simple_ddl_parser/$2" "$3" "$4" <<'PY'
import re, sys
p, old, new = sys.argv[1:4]
s = open(p).read()
n = len(re.findall(old, s))
if n != 1:
    sys.exit("pattern matches %d times" % n)
open(p, "w").write(re.sub(old, lambda m: new.replace("\\n", "\n"), s, count=1))
PY
git -C $W diff -- . ':(exclude)simple_ddl_parser/parsetab.py' > /verif/sensitivity/mutants/$1.diff
git -C $W checkout -q -- .
cat /verif/sensitivity/mutants/$1.diff | grep '^[-+]' | grep -v '^+++\|^---'
