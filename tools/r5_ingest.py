#!/venv/bin/python
"""dev helper: tools/r5_ingest.py C19_a [C19_b ...] - verify a round-5 sub-agent change (from /tmp/r5/out/<name>) in scratch worktree /tmp/wt/M
with tools/seed_verify.sh and, when it holds (suite green with it, demo 1 with / 0 without), keep it as seeded/<prop>_m9 (a) / _m10 (b)."""
import json, os, re, shutil, subprocess, sys
HERE = os.path.dirname(os.path.dirname(os.path.abspath(__file__)))
titles = {json.loads(l)["id"]: json.loads(l)["title"] for l in open(os.path.join(HERE, "properties.jsonl"))}
for name in sys.argv[1:]:
    src = "/tmp/r5/out/" + name
    prop, ab = name.split("_")
    dst = os.path.join(HERE, "seeded", "%s_m%d" % (prop, {"a": 9, "b": 10}[ab]))
    if not all(os.path.exists(os.path.join(src, f)) for f in ("patch.diff", "demo.py", "meta.json")):
        print(name, "INCOMPLETE", os.listdir(src) if os.path.isdir(src) else "missing")
        continue
    r = subprocess.run([os.path.join(HERE, "tools", "seed_verify.sh"), src], capture_output=True, text=True)
    out = r.stdout + r.stderr
    passed = re.search(r"(\d+) passed", out)
    failed = re.search(r"(\d+) failed", out)
    demo = re.search(r"demo exit with change=(\d+) without=(\d+)", out)
    ok = passed and passed.group(1) == "308" and not failed and demo and demo.group(1) == "1" and demo.group(2) == "0"
    print(name, "OK" if ok else "REJECTED", out.strip().splitlines()[-2:])
    if not ok:
        continue
    meta = json.load(open(os.path.join(src, "meta.json")))
    meta = {"property": prop, "property_title": titles[prop], "round": 5,
            "source": "independent sub-agent given only the property text, its own scratch worktree and one-line summaries of the eight earlier changes for "
                      "this property; asked for a different mechanism (boundary >= 3 items, interaction of two features, position-dependent string "
                      "operation, carried state, aliasing, one mode plus one feature)",
            "summary": meta.get("summary"), "needs_to_manifest": meta.get("needs_to_manifest"), "why_tests_pass": meta.get("why_tests_pass"), "rebased": False,
            "verified": {"how": "tools/seed_verify.sh in scratch worktree /tmp/wt/M (never /repo): git apply patch.diff; pytest tests -> 308 passed; "
                                "PYTHONPATH=<worktree> python demo.py -> exit 1 with the change, exit 0 without",
                         "tests_pass_with_change": True, "demo_exit_with_change": 1, "demo_exit_without_change": 0}}
    os.makedirs(dst, exist_ok=True)
    shutil.copy(os.path.join(src, "patch.diff"), dst)
    shutil.copy(os.path.join(src, "demo.py"), dst)
    json.dump(meta, open(os.path.join(dst, "meta.json"), "w"), indent=1)
