#!/bin/bash
# dev helper: run every quick check on the unchanged tree and print one line each (exit code, violations, seconds)
cd /verif
for i in $(seq -w 1 20); do
  c=C$i
  out=$(SDPV_NO_SHRINK=${SDPV_NO_SHRINK:-1} /venv/bin/python run_check.py $c "$@" 2>&1); rc=$?
  echo "$c rc=$rc $(echo "$out" | grep -c '^VIOLATION') viol | $(echo "$out" | tail -1 | cut -c1-170)"
  [ $rc -ne 0 ] && echo "$out" | grep -E "bucket=|HARNESS|Error" | cut -c1-300 | head -5
done
