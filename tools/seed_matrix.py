#!/venv/bin/python
"""dev helper: run quick checks against every seeded change (scratch copies, never /repo) and record the kill matrix.
usage: tools/seed_matrix.py [--checks C01,C02] [--mutants C03_m1,...] [--dir seeded|sensitivity/mutants]"""
import argparse, glob, json, os, shutil, subprocess, sys, tempfile, time
HERE = os.path.dirname(os.path.dirname(os.path.abspath(__file__)))
ap = argparse.ArgumentParser()
ap.add_argument("--checks", default=",".join("C%02d" % i for i in range(1, 21)))
ap.add_argument("--mutants", default="")
ap.add_argument("--all", action="store_true", help="every check against every change (hours); default: the target property's check and its neighbours")
ap.add_argument("--redo", action="store_true")
ap.add_argument("--out", default=os.path.join(HERE, "sensitivity", "matrix.json"))
a = ap.parse_args()
checks = a.checks.split(",")
items = []
for d in sorted(glob.glob(os.path.join(HERE, "seeded", "*"))):
    if os.path.exists(os.path.join(d, "patch.diff")):
        items.append((os.path.basename(d), os.path.join(d, "patch.diff")))
for f in sorted(glob.glob(os.path.join(HERE, "sensitivity", "mutants", "*.diff"))):
    items.append((os.path.basename(f)[:-5], f))
if a.mutants:
    want = set(a.mutants.split(","))
    items = [x for x in items if x[0] in want]
matrix = json.load(open(a.out)) if os.path.exists(a.out) else {}
RELATED = {"C01": "C01,C02,C03,C05,C09", "C02": "C02,C01,C06", "C03": "C03,C04,C16", "C04": "C04,C03,C12", "C05": "C05,C01,C03", "C06": "C06,C02,C04",
           "C07": "C07,C08", "C08": "C08,C03,C14", "C09": "C09,C01,C05", "C10": "C10,C11,C12", "C11": "C11,C10,C05", "C12": "C12,C04,C14", "C13": "C13,C12,C16",
           "C14": "C14,C15", "C15": "C15,C14", "C16": "C16,C03,C13", "C17": "C17,C03", "C18": "C18,C05", "C19": "C19", "C20": "C20"}
for name, patch in items:
    m = tempfile.mkdtemp(prefix="mut_")
    try:
        os.makedirs(os.path.join(m, "repo"))
        shutil.copytree("/repo/simple_ddl_parser", os.path.join(m, "repo", "simple_ddl_parser"), ignore=shutil.ignore_patterns("__pycache__"))
        r = subprocess.run(["patch", "-p1", "-s", "-i", patch], cwd=os.path.join(m, "repo"), capture_output=True)
        if r.returncode != 0:
            matrix.setdefault(name, {})["_patch"] = "FAILED"
            print(name, "PATCH FAILED", r.stdout.decode()[-200:])
            continue
        row = matrix.setdefault(name, {})
        todo = checks if a.all else [c for c in RELATED.get(name[:3].upper(), a.checks).split(",") if c in checks]
        for c in todo:
            if c in row and not a.redo:
                continue
            env = dict(os.environ, SDPV_REPO=os.path.join(m, "repo"), SDPV_EVIDENCE_DIR=os.path.join(m, "ev"), SDPV_REPLAY_DIR=os.path.join(m, "rp"), SDPV_NO_SHRINK="1")
            t0 = time.time()
            p = subprocess.run(["/venv/bin/python", os.path.join(HERE, "run_check.py"), c], env=env, capture_output=True, timeout=3600)
            out = p.stdout.decode()
            buckets = [l.split("bucket=")[1].split(" ")[0] for l in out.splitlines() if l.strip().startswith("bucket=")]
            row[c] = {"exit": p.returncode, "buckets": buckets[:6], "s": round(time.time() - t0, 1)}
            print(name, c, p.returncode, buckets[:3], flush=True)
            json.dump(matrix, open(a.out, "w"), indent=1, sort_keys=True)
    finally:
        shutil.rmtree(m, ignore_errors=True)
