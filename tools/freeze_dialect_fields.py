#!/venv/bin/python
"""One-off: transcribe, from the pinned tree, which dialect-specific table fields appear at top level in which output mode
(-> data/dialect_fields.json). The checks read only the frozen JSON, never the code, so that a later change of a field's
placement is noticed (C10)."""
import json, os, sys
sys.path.insert(0, os.path.dirname(os.path.dirname(os.path.abspath(__file__))))
from sdpv import loader
loader.load()
from simple_ddl_parser.output.table_data import TableData
from simple_ddl_parser.output.dialects import dialect_by_name

modes = sorted(dialect_by_name)
base_keys = ["table_name", "schema", "primary_key", "columns", "alter", "checks", "index", "partitioned_by", "constraints", "tablespace",
             "if_not_exists", "partition_by", "table_properties", "replace", "comment", "like"]
fields = set()
for m in modes:
    if m == "sql":
        continue
    cls = TableData.get_dialect_class({"output_mode": m})
    fields |= set(cls.__dataclass_fields__)
fields -= {"init_data", "output_mode", "unique", "unique_statement", "ref_columns", "references"}
table = {}
for f in sorted(fields):
    if f in base_keys:
        continue
    name = "with" if f == "_with" else f
    always, provided = [], []
    for m in modes:
        kw = {"table_name": "t", "output_mode": m}
        d0 = TableData.init(**dict(kw)).to_dict()
        d1 = TableData.init(**dict(kw, **{name: "X"})).to_dict()
        if name in d0:
            always.append(m)
        if name in d1 and d1[name] == "X":
            provided.append(m)
    table[name] = {"top_level_when_provided": provided, "always_present": always}
out = os.path.join(os.path.dirname(os.path.dirname(os.path.abspath(__file__))), "data", "dialect_fields.json")
json.dump({"modes": modes, "fields": table}, open(out, "w"), indent=1, sort_keys=True)
for k, v in sorted(table.items()):
    print("%-32s provided:%s always:%s" % (k, ",".join(v["top_level_when_provided"]), ",".join(v["always_present"])))
