"""Load the code under test from a private scratch copy of the repository's working tree.

Importing the package straight from /repo would let PLY rewrite /repo/simple_ddl_parser/parsetab.py
whenever the cached signature does not match, so every check works on a copy (DESIGN.md 2.1).
"""
import atexit
import collections
import logging
import os
import shutil
import sys
import tempfile

REPO = os.environ.get("SDPV_REPO", "/repo")
_STATE = {"dir": None, "pid": None}

CTOR_KEYS = ("silent", "debug", "normalize_names", "log_file", "log_level")


class HarnessError(Exception):
    """Infrastructure problem - never reported as a violation (exit code 2)."""


def quiet_logging():
    root = logging.getLogger()
    if not any(isinstance(h, logging.NullHandler) for h in root.handlers):
        root.addHandler(logging.NullHandler())
    root.setLevel(logging.WARNING)


def make_scratch_copy(repo=None, keep_parsetab=True, prefix="sdpv_"):
    repo = repo or REPO
    src = os.path.join(repo, "simple_ddl_parser")
    if not os.path.isdir(src):
        raise HarnessError("no package at %s" % src)
    tmp = tempfile.mkdtemp(prefix=prefix)
    ignore = shutil.ignore_patterns("__pycache__", "*.pyc", "parser.out")
    shutil.copytree(src, os.path.join(tmp, "simple_ddl_parser"), ignore=ignore)
    if not keep_parsetab:
        try:
            os.remove(os.path.join(tmp, "simple_ddl_parser", "parsetab.py"))
        except FileNotFoundError:
            pass
    return tmp


def _cleanup():
    if _STATE["dir"] and _STATE["pid"] == os.getpid():
        shutil.rmtree(_STATE["dir"], ignore_errors=True)
        _STATE["dir"] = None


def load(repo=None):
    """Copy the working tree's package to a scratch dir, import it from there, return the module."""
    if _STATE["dir"]:
        import simple_ddl_parser

        return simple_ddl_parser
    quiet_logging()
    tmp = make_scratch_copy(repo)
    _STATE["dir"], _STATE["pid"] = tmp, os.getpid()
    atexit.register(_cleanup)
    sys.path.insert(0, tmp)
    sys.dont_write_bytecode = True
    for name in [m for m in sys.modules if m == "simple_ddl_parser" or m.startswith("simple_ddl_parser.")]:
        del sys.modules[name]
    import simple_ddl_parser

    where = os.path.realpath(simple_ddl_parser.__file__)
    if not where.startswith(os.path.realpath(tmp) + os.sep):
        raise HarnessError("package imported from %s, not from scratch copy %s" % (where, tmp))
    # first construction may regenerate the tables (stale / missing cache) - do it once, in the parent
    simple_ddl_parser.DDLParser("create table t (a int);").run()
    return simple_ddl_parser


def scratch_dir():
    return _STATE["dir"]


def cleanup():
    _cleanup()


# ---------------------------------------------------------------- parse helpers

FIRED = collections.Counter()
_COV = {"on": False, "total": 0}


def enable_production_coverage(on=True):
    _COV["on"] = on


def _instrument(parser):
    prods = parser.yacc.productions
    _COV["total"] = len(prods)
    _COV["all"] = [p.str for p in prods]
    for prod in prods:
        f = prod.callable
        if f is None or getattr(f, "_sdpv_cov", False):
            continue

        def w(p, f=f, s=prod.str):
            FIRED[s] += 1
            return f(p)

        w._sdpv_cov = True
        prod.callable = w


def split_kwargs(kw):
    ctor = {k: kw[k] for k in kw if k in CTOR_KEYS}
    run = {k: kw[k] for k in kw if k not in CTOR_KEYS}
    return ctor, run


def make_parser(ddl, **ctor):
    from simple_ddl_parser import DDLParser

    p = DDLParser(ddl, **ctor)
    if _COV["on"]:
        _instrument(p)
    return p


def parse(ddl, **kw):
    """DDLParser(ddl, **ctor_kwargs).run(**run_kwargs); exceptions propagate."""
    ctor, run = split_kwargs(kw)
    return make_parser(ddl, **ctor).run(**run)


def try_parse(ddl, **kw):
    """-> ('ok', result) | ('exc', ExceptionTypeName, message, [names of the exception's classes])"""
    try:
        return ("ok", parse(ddl, **kw))
    except Exception as e:  # the parser's contract is examined by the caller
        return ("exc", type(e).__name__, str(e)[:600], [c.__name__ for c in type(e).__mro__])


def no_comments(result):
    return [e for e in result if not (isinstance(e, dict) and "comments" in e and len(e) == 1)]


def coverage_summary():
    return {"productions_fired": len(FIRED), "productions_total": _COV["total"]}
