"""The statement universe shared by the metamorphic / stateful / differential checks (C03 C05 C08 C10 C12
C13 C14 C15 C16 C19 C20): self-contained *blocks* drawn from the model generators of the reference-model
checks, unsupported statements, and the frozen regression corpus.

block = {"k": kind, "c": case-of-that-kind}          (plain JSON-able)
statements(block)  -> list of token lists (sdpv.render) / raw strings
entity_kinds(block)-> bucket name of every entity the block yields, in order
"""
import copy
import json
import os
import re

from hypothesis import strategies as st

from . import gen
from .render import END, EQ, I, K, L, LP, N, RP, T, V, plist, render_script

HERE = os.path.dirname(os.path.abspath(__file__))
CORPUS_FILE = os.path.join(os.path.dirname(HERE), "corpus", "ddl_corpus.json")

MODES = ["sql", "mysql", "mssql", "oracle", "hql", "postgres", "redshift", "snowflake", "bigquery", "spark_sql",
         "ibm_db2", "athena", "databricks", "sqlite", "vertics"]  # frozen list of the 15 documented output modes


def _props():
    from .props import c01, c02, c04, c09, c17, c18

    return c01, c02, c04, c09, c17, c18


def _c11():
    from .props import c11

    return c11


# ------------------------------------------------------------------ unsupported statements

# parser-rejected families: silent=True -> no entity, silent=False -> DDLParserError
REJECTED = [
    "SELECT {a}, {b} FROM {t} WHERE {a} > 1;",
    "select * from {s}.{t};",
    "SELECT {a},\n    {b}\n  FROM {t}\n  WHERE {a} > 1;",
    "UPDATE {t} SET {a} = 1 WHERE {b} = 2;",
    "REVOKE ALL ON {t} FROM {u};",
    "CREATE VIEW {v} AS SELECT {a} FROM {t};",
    "CREATE OR REPLACE VIEW {v} AS SELECT {a} FROM {t};",
    "CREATE VIEW {v} AS\n  SELECT {a}\n  FROM {t};",
    "CREATE FUNCTION {f}() RETURNS int AS 'select 1' LANGUAGE SQL;",
    "CREATE TRIGGER {f} BEFORE INSERT ON {t} FOR EACH ROW EXECUTE PROCEDURE {f}();",
    "CREATE PROCEDURE {f}() LANGUAGE SQL AS 'select 1';",
    "CREATE ROLE {u};",
    "CREATE USER {u};",
    "CREATE EXTENSION {f};",
    "TRUNCATE TABLE {t};",
    "COMMENT ON TABLE {t} IS 'x';",
    "COMMENT ON COLUMN {t}.{a} IS 'some text';",
    "EXPLAIN SELECT 1;",
    "CALL {f}();",
    "DROP INDEX {v};",
    "DROP VIEW {v};",
    "DROP SCHEMA {s};",
    "DROP TABLE IF EXISTS {t};",
    "ALTER TABLE {t} OWNER TO {u};",
    "ALTER SEQUENCE {v} RESTART;",
    "BEGIN;",
    "COMMIT;",
    "ROLLBACK;",
    "ANALYZE {t};",
    "VACUUM {t};",
    "MERGE INTO {t} USING {s} ON {t}.{a} = {s}.{a};",
    "WITH x AS (SELECT 1) SELECT * FROM x;",
    "SHOW TABLES;",
    "DESCRIBE {t};",
    "LOCK TABLE {t};",
    "CREATE MATERIALIZED VIEW {v} AS SELECT 1;",
    "REFRESH MATERIALIZED VIEW {v};",
    "CREATE FUNCTION {f}() RETURNS bigint AS $$ SELECT 1 $$ LANGUAGE sql;",
    "DO $$ BEGIN PERFORM 1; END $$;",
    "CREATE FUNCTION {f}() RETURNS int AS $$\n  SELECT {a} FROM {t}\n$$ LANGUAGE sql;",
    # unsupported statements whose beginning is a complete supported statement
    "CREATE TABLE {t} AS SELECT {a}, {b} FROM {s};",
    "CREATE TABLE {t} AS SELECT * FROM {s} WHERE {a} > 0;",
    "CREATE SEQUENCE {v} OWNED BY {t}.{a};",
    "CREATE SEQUENCE {v} START 1 OWNED BY {t}.{a};",
    "CREATE INDEX {v} ON {t} ({a}) WHERE {a} > 0;",
    "CREATE TABLE {t} (LIKE {s} INCLUDING ALL);",
    "CREATE TABLE {t} PARTITION OF {s} FOR VALUES IN (1);",
    "ALTER TABLE {t} ADD CONSTRAINT {v} EXCLUDE USING gist ({a} WITH =);",
    "CREATE TYPE {v} AS RANGE (subtype = float8);",
    "ALTER TABLE {t} ENABLE ROW LEVEL SECURITY;",
    "ALTER TABLE {t} DROP CONSTRAINT {v};",
    "ALTER TABLE {t} ALTER COLUMN {a} DROP NOT NULL;",
    "CREATE TABLE;",
    "ALTER TABLE;",
    "CREATE INDEX;",
]
# line-skipped families: never reach the parser, never raise
SKIPPED = [
    "GO",
    "USE {s};",
    "INSERT INTO {t} VALUES (1, 2);",
    "INSERT INTO {t} ({a}, {b}) VALUES (1, 'x');",
    "GRANT SELECT ON {t} TO {u};",
    "DELETE FROM {t} WHERE {a} = 1;",
    "go",
    "use {s};",
    # T-SQL style: no ';' after the DML statement
    "INSERT INTO {t} VALUES (1, 2)",
    "INSERT INTO {t} ({a}) VALUES (1)\nGO",
    "DELETE FROM {t}",
    "GRANT SELECT ON {t} TO {u}",
    # other shapes of the same line-skipped families
    "USE ROLE {u};",
    "USE WAREHOUSE {s};",
    "USE SCHEMA {s}.{t};",
    "USE DATABASE {s}",
    "INSERT OVERWRITE TABLE {t} SELECT {a}, {b} FROM {s}.{t};",
    "insert into {t} select * from {s}.{t};",
    "DELETE {t} WHERE {a} = 1;",
    "GRANT ALL PRIVILEGES ON {t} TO {u} WITH GRANT OPTION;",
    "GRANT {u} TO {v};",
]


@st.composite
def unsupported(draw, families=("rejected", "skipped")):
    fam = draw(st.sampled_from(list(families)))
    tpl = draw(st.sampled_from(REJECTED if fam == "rejected" else SKIPPED))
    names = {k: draw(gen.plain_ident(min_len=2, max_len=6)) for k in "abtsuvf"}
    return {"family": fam, "text": tpl.format(**names)}


# ------------------------------------------------------------------ tables with extended column options (metamorphic use only)

XOPTS = {
    # name: (tokens, needs) ; roles: K = SQL keyword (re-cased by C05), V = echoed word, I identifier, L literal, N number
    "auto_increment": [("AUTO_INCREMENT", "K")],
    "autoincrement": [("AUTOINCREMENT", "K")],
    "collate": [("COLLATE", "K"), ("utf8_bin", "I")],
    "collate_q": [("COLLATE", "K"), ('"C"', "I")],
    "comment": [("COMMENT", "K"), ("'cm x'", "L")],
    "generated_stored": [("GENERATED", "K"), ("ALWAYS", "K"), ("AS", "K"), ("(", "P"), ("a1", "I"), ("*", "O"), ("2", "N"), (")", "P"), ("STORED", "K")],
    "generated": [("GENERATED", "K"), ("ALWAYS", "K"), ("AS", "K"), ("(", "P"), ("a1", "I"), ("+", "O"), ("1", "N"), (")", "P")],
    "generated_identity": [("GENERATED", "K"), ("ALWAYS", "K"), ("AS", "K"), ("IDENTITY", "V")],
    "generated_by_default": [("GENERATED", "K"), ("BY", "K"), ("DEFAULT", "V"), ("AS", "V"), ("IDENTITY", "V")],
    "encode": [("ENCODE", "K"), ("zstd", "V")],
    "encrypt": [("ENCRYPT", "K")],
    "on_update": [("ON", "K"), ("UPDATE", "K"), ("CURRENT_TIMESTAMP", "V")],
    "identity": [("IDENTITY", "K"), ("(", "P"), ("1", "N"), (",", "P"), ("1", "N"), (")", "P")],
    "character_set": [("CHARACTER", "K"), ("SET", "K"), ("utf8", "V")],
    "next_value_for": [("DEFAULT", "K"), ("NEXT", "K"), ("VALUE", "K"), ("FOR", "K"), ("sq1", "I")],
    "unsigned": [("UNSIGNED", "V")],
    "with_tag": [("WITH", "K"), ("TAG", "K"), ("(", "P"), ("k1='v1'", "L"), (")", "P")],
    "constraint_nn": [("CONSTRAINT", "K"), ("nn1", "I"), ("NOT", "K"), ("NULL", "K")],
    "default_paren": [("DEFAULT", "K"), ("(", "P"), ("1", "N"), (")", "P")],
    "not_null": [("NOT", "K"), ("NULL", "K")],
    "null": [("NULL", "K")],
    "check": [("CHECK", "K"), ("(", "P"), ("a1", "I"), (">", "O"), ("0", "N"), (")", "P")],
    "default_ts": [("DEFAULT", "K"), ("CURRENT_TIMESTAMP", "V")],
    "unique": [("UNIQUE", "K")],
    "with_time_zone": [("WITH", "K"), ("TIME", "K"), ("ZONE", "K")],
    "without_time_zone": [("WITHOUT", "K"), ("TIME", "K"), ("ZONE", "K")],
    "ref_deferrable": [("REFERENCES", "K"), ("rt1", "I"), ("(", "P"), ("rc1", "I"), (")", "P"), ("DEFERRABLE", "K"), ("INITIALLY", "K"), ("DEFERRED", "V")],
    "ref_not_deferrable": [("REFERENCES", "K"), ("rt1", "I"), ("(", "P"), ("rc1", "I"), (")", "P"), ("NOT", "K"), ("DEFERRABLE", "K")],
    "default_fn": [("DEFAULT", "K"), ("now()", "V")],
    "default_dotfn": [("DEFAULT", "K"), ("s1.f1()", "V")],
    "default_fn_arg": [("DEFAULT", "K"), ("lower", "V"), ("(", "P"), ("'X'", "L"), (")", "P")],
    "check_in": [("CHECK", "K"), ("(", "P"), ("a1", "I"), ("IN", "K"), ("(", "P"), ("1", "N"), (",", "P"), ("2", "N"), (")", "P"), (")", "P")],
}
XPRE = [[], [], [], ["OR", "REPLACE"], ["TEMPORARY"], ["TEMP"], ["EXTERNAL"], ["OR", "REPLACE", "TRANSIENT"], ["GLOBAL", "TEMPORARY"]]
XOPT_NAMES = sorted(XOPTS)
# options that cannot follow / precede each other in one column (mutually exclusive families)
XOPT_FAMILY = {"auto_increment": "ai", "autoincrement": "ai", "collate": "co", "collate_q": "co", "generated_stored": "ge", "generated": "ge",
               "generated_identity": "ge", "generated_by_default": "ge", "identity": "ge", "next_value_for": "de", "default_paren": "de",
               "default_ts": "de", "not_null": "nu", "null": "nu", "constraint_nn": "nu", "default_fn": "de", "default_dotfn": "de", "default_fn_arg": "de",
               "with_time_zone": "ty", "without_time_zone": "ty", "unsigned": "ty", "ref_deferrable": "re", "ref_not_deferrable": "re", "check_in": "check"}


@st.composite
def xtable(draw):
    n = draw(st.integers(1, 4))
    names = ["a1"] + draw(gen.distinct_names(n, avoid=["a1", "sq1", "nn1"]))
    cols = [{"name": "a1", "type": "int", "size": None, "x": []}]
    for nm in names[1:]:
        t, size = draw(gen.type_and_size(allow_random_word=False))
        k = draw(st.integers(0, 3))
        chosen, fams = [], set()
        for o in draw(st.permutations(XOPT_NAMES))[:6]:
            f = XOPT_FAMILY.get(o, o)
            if f in fams or len(chosen) >= k:
                continue
            fams.add(f)
            chosen.append(o)
        if any(o.endswith("time_zone") for o in chosen):  # WITH[OUT] TIME ZONE completes the type: no IDENTITY / CHARACTER SET after it
            chosen = [o for o in chosen if o not in ("identity", "character_set")]
        # UNSIGNED, IDENTITY (n, m) and CHARACTER SET x belong to the type: the grammar accepts them only directly after it
        chosen.sort(key=lambda o: {"unsigned": 0, "with_time_zone": 0, "without_time_zone": 0, "identity": 1, "character_set": 2}.get(o, 3))
        cols.append({"name": nm, "type": t, "size": size, "x": chosen})
    alters = []
    for j in range(draw(st.integers(0, 2))):
        alters.append({"name": "xa%d" % j, "type": draw(st.sampled_from(["text", "varchar", "int"])), "x": draw(st.sampled_from([[], ["collate"], ["comment"], ["default_ts"], ["collate_q"]]))})
    items = []
    if draw(st.integers(0, 3)) == 0:
        k = draw(st.integers(1, min(2, len(names))))
        items.append({"kind": draw(st.sampled_from(["index", "unique_key"])), "name": "ixk1", "cols": list(draw(st.permutations(names)))[:k]})
    return {"schema": draw(st.one_of(st.none(), gen.plain_ident())), "name": draw(gen.plain_ident(min_len=2)), "cols": cols, "alters": alters,
            "pre": draw(st.sampled_from(XPRE)), "ine": draw(st.integers(0, 3)) == 0, "items": items}


def xtable_statements(c, index):
    name = "%s_x%d" % (c["name"], index)
    full = (c["schema"] + "." if c["schema"] else "") + name
    items = []
    for col in c["cols"]:
        toks = [I(col["name"]), T(col["type"])] + gen.size_tokens(col["size"])
        for o in col["x"]:
            toks += [tuple(t) for t in XOPTS[o]]
        items.append(toks)
    for it in c.get("items", []):
        items.append((K("INDEX") if it["kind"] == "index" else K("UNIQUE", "KEY")) + [I(it["name"])] + plist([[I(x)] for x in it["cols"]]))
    pre = c.get("pre", [])
    # the grammar has no IF NOT EXISTS form after a two-word prefix (GLOBAL TEMPORARY)
    ine = c.get("ine") and pre != ["GLOBAL", "TEMPORARY"]
    head = K("CREATE") + K(*pre) + K("TABLE") + (K("IF", "NOT", "EXISTS") if ine else [])
    out = [head + [I(full)] + plist(items) + [END]]
    for a in c["alters"]:
        toks = K("ALTER", "TABLE") + [I(full)] + K("ADD") + [I(a["name"]), T(a["type"])]
        for o in a["x"]:
            toks += [tuple(t) for t in XOPTS[o]]
        out.append(toks + [END])
    return out


# ------------------------------------------------------------------ blocks

BLOCK_KINDS = ["tables", "ctable", "alter", "typed", "seq", "decl", "set", "drop", "like", "dtable", "xtable", "rtable"]


@st.composite
def block(draw, kinds=BLOCK_KINDS, small=True):
    c01, c02, c04, c09, c17, c18 = _props()
    k = draw(st.sampled_from(list(kinds)))
    if k == "tables":
        c = draw(c01.case_strategy(2, 5 if small else 10))
    elif k == "ctable":
        c = draw(c02.case_strategy(("plain", "plain", "dq", "br", "bt")))
        c02.apply_carve_outs(c)
    elif k == "rtable":
        # a constraint table whose table-level PRIMARY KEY / UNIQUE / FOREIGN KEY clauses spell their columns differently from the
        # column definitions (other letter case, other or no delimiters) - metamorphic use only, no model of the outcome
        c = {"c02": draw(c02.case_strategy(("plain", "plain", "dq", "br", "bt"))), "respell": draw(st.lists(st.integers(0, 5), min_size=1, max_size=6))}
        c02.apply_carve_outs(c["c02"])
        c["c02"].pop("layout", None)
    elif k == "alter":
        c = draw(c04.case_strategy(5 if small else 8))
        c["undefined"] = None
    elif k == "typed":
        c = draw(c09.case_strategy(3))
    elif k == "seq":
        c = {"seqs": [draw(c17.sequence())]}
    elif k == "decl":
        c = draw(c18.case_strategy())
    elif k == "set":
        c = {"name": draw(gen.plain_ident(min_len=2)), "value": draw(st.one_of(gen.plain_ident(), st.integers(0, 999).map(str))),
             "eq": draw(st.booleans()), "sp": draw(st.integers(0, 3)) == 0}
    elif k == "drop":
        c = {"schema": draw(st.one_of(st.none(), gen.plain_ident())), "name": draw(gen.plain_ident(min_len=2))}
    elif k == "dtable":
        c = draw(_c11().case_strategy(3))
    elif k == "xtable":
        c = draw(xtable())
    else:  # like
        c = {"schema": draw(st.one_of(st.none(), gen.plain_ident())), "name": draw(gen.plain_ident(min_len=2)),
             "src": draw(gen.plain_ident(min_len=2)), "paren": draw(st.booleans()), "alter_add": draw(st.integers(0, 2)) == 0}
    if isinstance(c, dict):
        c.pop("layout", None)
    return {"k": k, "c": c}


def statements(b, index=0, set_tokens=False):
    """token lists of the block's statements. index: position of the block in its script; ALTER blocks get
    table names no other block can carry (an ALTER addresses tables by name across the whole script)."""
    c01, c02, c04, c09, c17, c18 = _props()
    k, c = b["k"], b["c"]
    if k == "tables":
        return [gen.create_table_tokens(t) for t in c["tables"]]
    if k == "ctable":
        return [gen.create_table_tokens({"schema": c["schema"], "name": c["name"], "items": c02.build_items(c)})]
    if k == "rtable":
        cc = copy.deepcopy(c["c02"])
        n = 0
        for it in cc["titems"]:
            if "cols" in it:
                new = []
                for name in it["cols"]:
                    new.append(respell(name, c["respell"][n % len(c["respell"])]))
                    n += 1
                it["cols"] = new
        return [gen.create_table_tokens({"schema": cc["schema"], "name": cc["name"], "items": c02.build_items(cc)})]
    if k == "alter":
        c = copy.deepcopy(c)
        for t in c["tables"]:
            t["name"] = "%s_q%d" % (t["name"], index)
        return c04.PROP.statements(c, None, with_undefined=False)
    if k == "typed":
        return [c09.PROP.table(c, False)[0]]
    if k == "seq":
        return [c17.seq_tokens(s) for s in c["seqs"]]
    if k == "decl":
        return c18.PROP.statements(c)
    if k == "xtable":
        return xtable_statements(c, index)
    if k == "dtable":
        return [_c11().merge_glue(_c11().PROP.statement(c)[0])]
    if k == "set":
        toks = K("SET") + [I(c["name"])] + ([EQ] if c["eq"] else []) + [V(c["value"]), END]
        # SET statements are handled line by line by the library: always one line, verbatim (known finding K19)
        if set_tokens:
            return [toks]
        line = render_script([toks], None).rstrip("\n")
        return [line[:-1] + " ;" if c.get("sp") else line]
    if k == "drop":
        return [K("DROP", "TABLE") + [I((c["schema"] + "." if c["schema"] else "") + c["name"]), END]]
    if k == "like":
        src = [I(c["src"])]
        body = ([LP] + K("LIKE") + src + [RP]) if c["paren"] else (K("LIKE") + src)
        full = (c["schema"] + "." if c["schema"] else "") + "%s_l%d" % (c["name"], index)
        out = [K("CREATE", "TABLE") + [I(full)] + body + [END]]
        if c.get("alter_add"):  # a column added to a table that was created without a column list of its own
            out.append(K("ALTER", "TABLE") + [I(full)] + K("ADD") + [I("added_col"), T("int"), END])
        return out
    raise ValueError(k)


def respell(name, code):
    """another spelling of the same identifier: case change and / or other delimiters"""
    inner = name.strip('"`[]') if name[:1] in '"`[' else name
    if " " in inner:
        return name
    return [inner, inner.upper(), inner.lower(), '"%s"' % inner, "`%s`" % inner, "[%s]" % inner][code % 6]


DECL_BUCKET = {"enum": "types", "object": "types", "table": "types", "kv": "types", "domain": "domains", "domain_enum": "domains", "schema": "schemas",
               "database": "databases", "tablespace": "tablespaces"}


def entity_kinds(b):
    k, c = b["k"], b["c"]
    if k == "tables":
        return ["tables"] * len(c["tables"])
    if k in ("ctable", "typed", "drop", "like", "dtable", "xtable", "rtable"):
        return ["tables"]
    if k == "alter":
        return ["tables"] * len(c["tables"])
    if k == "seq":
        return ["sequences"] * len(c["seqs"])
    if k == "decl":
        out = []
        for d, main in _props()[5].PROP.sequence(c):
            out.append(DECL_BUCKET[d["kind"]])
            if main and d.get("use"):
                out.append("tables")
        return out
    if k == "set":
        return ["ddl_properties"]
    raise ValueError(k)


MARKER_KEYS = {"tables": "table_name", "sequences": "sequence_name", "types": "type_name", "domains": "domain_name",
               "schemas": "schema_name", "databases": "database_name", "tablespaces": "tablespace_name", "ddl_properties": "value"}


def script_statements(blocks):
    out = []
    for i, b in enumerate(blocks):
        if b["k"] == "raw":
            out.append(b["c"]["text"])
        else:
            out.extend(statements(b, i))
    return out


def render_blocks(blocks, layout=None, stats=None):
    return render_script(script_statements(blocks), layout, stats)


@st.composite
def script(draw, min_blocks=1, max_blocks=4, kinds=BLOCK_KINDS, unsupported_p=0, families=("rejected", "skipped")):
    """list of blocks; with unsupported_p in 0..10 each gap gets an unsupported statement with that chance"""
    n = draw(st.integers(min_blocks, max_blocks))
    blocks = []
    for i in range(n):
        if unsupported_p and draw(st.integers(0, 9)) < unsupported_p:
            blocks.append({"k": "raw", "c": draw(unsupported(families))})
        blocks.append(draw(block(kinds)))
    if unsupported_p and draw(st.integers(0, 9)) < unsupported_p:
        blocks.append({"k": "raw", "c": draw(unsupported(families))})
    return blocks



# ------------------------------------------------------------------ dialect short forms (history / interference checks only)
# statements the pinned tree accepts but whose value placement is not documented (so the reference-model checks do not generate
# them); for the history checks (C14, C15) the oracle is the object's own isolated result, so any accepted text is a fair input.
# (text, output mode it is usually parsed in)
SHORT_FORMS = [
    ("create table sales (salesid integer not null, listid integer not null, qtysold smallint) sortkey(listid);\n", "redshift"),
    ("create table sales2 (salesid integer, listid integer) distkey(listid) sortkey(listid, salesid);\n", "redshift"),
    ("create table sales3 (salesid integer encode zstd, listid integer) diststyle all;\n", "redshift"),
    ("create temp table tmp_s (a int, b varchar(10) encode lzo) diststyle even compound sortkey (a, b);\n", "redshift"),
    ("create table users (userid integer not null, username varchar(20));\n", "redshift"),
    ("CREATE TABLE m (id int NOT NULL AUTO_INCREMENT, name varchar(20) CHARACTER SET utf8 COLLATE utf8_bin, PRIMARY KEY (id), KEY ix_n (name)) "
     "ENGINE=InnoDB AUTO_INCREMENT=5 DEFAULT CHARSET=utf8;\n", "mysql"),
    ("CREATE TABLE m2 (id int, st enum('a','b') DEFAULT 'a', ts timestamp DEFAULT CURRENT_TIMESTAMP ON UPDATE CURRENT_TIMESTAMP);\n", "mysql"),
    ("CREATE TABLE o (id number(10) ENCRYPT SALT, v varchar2(10 char), c clob) STORAGE (INITIAL 64K NEXT 1M) TABLESPACE ts1;\n", "oracle"),
    ("CREATE TABLE o2 (id number GENERATED ALWAYS AS IDENTITY, x int) ORGANIZATION INDEX;\n", "oracle"),
    ("CREATE TABLE [dbo].[x] ([id] int IDENTITY(1,1) NOT NULL, [v] nvarchar(max), CONSTRAINT [pk_x] PRIMARY KEY CLUSTERED ([id] ASC) "
     "WITH (PAD_INDEX = OFF) ON [PRIMARY]) ON [PRIMARY] TEXTIMAGE_ON [PRIMARY];\n", "mssql"),
    ("CREATE TABLE `p.d.t` (x INT64 OPTIONS(description=\"d\"), ts TIMESTAMP) PARTITION BY DATE(ts) CLUSTER BY x OPTIONS(description=\"t\");\n", "bigquery"),
    ("CREATE TABLE parent (id int, name text);\nCREATE TABLE c (id int, extra text) INHERITS (parent);\n", "postgres"),
    ("CREATE TABLE c2 (id int, extra text) INHERITS (parent2);\nCREATE TABLE parent2 (id int);\n", "postgres"),
    ("CREATE TABLE pr (id int, ts timestamptz) PARTITION BY RANGE (ts);\n", "postgres"),
    ("CREATE EXTERNAL TABLE h (a int, b string) PARTITIONED BY (dt string) CLUSTERED BY (a) INTO 4 BUCKETS ROW FORMAT DELIMITED FIELDS TERMINATED BY ',' "
     "ESCAPED BY '\\\\' STORED AS TEXTFILE LOCATION 's3://b/p';\n", "athena"),
    ("CREATE EXTERNAL TABLE h2 (a int) STORED AS PARQUET LOCATION 'hdfs://x/y' TBLPROPERTIES ('k'='v');\n", "hql"),
    ("create or replace table sf (id int autoincrement start 1 increment 1, v variant) cluster by (id) data_retention_time_in_days = 1 "
     "change_tracking = true comment = 'c';\n", "snowflake"),
    ("create table sf2 clone sf;\ncreate schema sc2 clone sc;\n", "snowflake"),
    ("CREATE TABLE sp (a int, b string) USING PARQUET PARTITIONED BY (b) LOCATION '/x';\n", "spark_sql"),
    ("CREATE TABLE db2t (a int) IN ts1 INDEX IN ts2 ORGANIZE BY ROW;\n", "ibm_db2"),
    ("CREATE TABLE plain_t (id int PRIMARY KEY, name varchar(20));\n", "sql"),
]

# ------------------------------------------------------------------ regression corpus (frozen)

_CORPUS = []


# multi-statement scenarios: one table id defined twice with ALTER / INDEX statements on both definitions, SET statements with value lists,
# a key column added and then renamed by ALTER statements
SCENARIOS = [
    ("CREATE TABLE orders (id int, customer_id int);\nALTER TABLE orders ADD CONSTRAINT fk_c FOREIGN KEY (customer_id) REFERENCES customers (id);\n"
     "DROP TABLE orders;\nCREATE TABLE orders (id int, buyer_id int);\nALTER TABLE orders ADD CONSTRAINT fk_b FOREIGN KEY (buyer_id) REFERENCES buyers (id);\n", "sql"),
    ("CREATE TABLE orders (id int, customer_id int);\nCREATE INDEX ix_o ON orders (customer_id);\nALTER TABLE orders ADD note text;\n"
     "CREATE OR REPLACE TABLE orders (id int, buyer_id int);\nCREATE INDEX ix_b ON orders (buyer_id);\n", "snowflake"),
    ("CREATE TABLE IF NOT EXISTS ev (id int);\nALTER TABLE ev ADD a int;\nCREATE TABLE IF NOT EXISTS ev (id int);\nALTER TABLE ev ADD b int;\n", "postgres"),
    ("SET search_path = public, pg_catalog;\nSET DateStyle TO ISO, MDY;\nCREATE TABLE st (a int);\nSET client_encoding = 'UTF8';\n", "postgres"),
    ("CREATE TABLE accounts (name text, email text);\nALTER TABLE accounts ADD account_no int PRIMARY KEY;\n"
     "ALTER TABLE accounts RENAME COLUMN account_no TO id;\n", "sql"),
    ("CREATE TABLE accounts2 (name text, email text);\nALTER TABLE accounts2 ADD account_no int PRIMARY KEY;\nALTER TABLE accounts2 DROP COLUMN account_no;\n", "mysql"),
    ("CREATE TABLE jobs (id int, state varchar(10) DEFAULT 'active');\nCREATE TABLE jobs_archive LIKE jobs;\n"
     "ALTER TABLE jobs_archive MODIFY COLUMN state varchar(20);\n", "mysql"),
]


def corpus():
    """the frozen regression corpus, followed by the dialect short forms and multi-statement scenarios written for this harness (every corpus sweep
    - adjacent pairs, re-layouts, comment insertion, modes, shapes, regrouping, histories, cache states - covers them too)"""
    if not _CORPUS:
        with open(CORPUS_FILE) as f:
            _CORPUS.extend(json.load(f))
        for n, (text, mode) in enumerate(SHORT_FORMS + SCENARIOS):
            _CORPUS.append({"src": "harness-text:%d" % n, "ddl": text, "ctor": {}, "run": {"output_mode": mode} if mode != "sql" else {}, "wellformed": True})
    return _CORPUS


def corpus_flags(item):
    """features of a corpus text that a relation may have to skip (known findings)"""
    d = item["ddl"]
    flags = set()
    if "input.regex" in d:
        flags.add("K7")
    if "\\'" in d:
        flags.add("K8")
    if re.search(r"[^\x00-\x7f]", d):
        flags.add("nonascii")
    return flags
