"""C06 - identifiers are verbatim; normalize_names only strips outer delimiters.

Three oracles:
 (a) reference model: a table (+ index, + one declaration) whose every naming position is filled from plain / mixed-case /
     "..." (also with a blank) / `...` / [...] / keyword-shaped names; expected output names = the written names
     (normalize_names=False) or the written names minus one outer delimiter pair (True);
 (b) sweep: every grammar keyword (minus the property's excluded list) x 3 letter-case forms x every naming position in
     which the property claims keywords (all column positions, key / unique / foreign-key / index column lists, referenced
     column) or in which the pinned tree accepts all of them (table, schema qualifier, constraint, type, domain, schema,
     database, tablespace names - minus IF, which opens IF NOT EXISTS);
 (c) diff oracle on the whole statement universe: the outputs under the two settings have the same structure and every
     differing leaf is explained by delimited identifiers losing their outer pair; nothing else changes.
"""
import re

from hypothesis import strategies as st

from .. import gen, loader, universe
from ..engine import Outcome, Prop, compare
from ..render import END, I, K, L, LP, N, RP, T, V, plist, render_script, strip_delims

KEYWORDS = [k for k in gen.GRAMMAR_KEYWORDS if k not in gen.C06_EXCLUDED]
KEYWORDS_NO_IF = [k for k in KEYWORDS if k != "IF"]
NAME_PATHS = re.compile(r"(table_name|schema|dataset|name|primary_key\[\]|column|columns\[\]|table|constraint_name|index_name|sequence_name|"
                        r"type_name|domain_name|schema_name|database_name|tablespace_name)$")


SPECIAL_WORDS = ["asc", "desc", "Desc", "Asc", "first", "last", "nulls", "temporary", "max", "to", "only", "identity", "stored", "always", "time", "zone",
                 "value", "next", "cast", "true", "false", "character", "charset", "unsigned", "date", "timestamp", "interval", "number", "text",
                 "external", "global", "transient", "period", "system_time", "buckets", "sorted", "fields", "lines", "organization", "distkey",
                 "sortkey", "diststyle", "inputformat", "delimited", "begin", "end", "select", "from", "where", "and", "commit", "collateral",
                 "Collated", "auto_increment_step", "AutoIncrementSeed", "autoincrement_x"]


def kw_form(draw_int, k):
    return [k, k.lower(), k.capitalize()][draw_int % 3]


@st.composite
def name(draw, pool="col", allow_kw=True):
    """one identifier; pool: 'col' (all keywords) | 'obj' (all but IF) | 'plainish' (no keyword-shaped names)"""
    sty = draw(st.sampled_from(["plain", "mixed", "dq", "dqsp", "bt", "br", "kw", "kw", "kwq", "odd", "special", "kwaffix"]))
    if sty == "special":
        # words that steer a production or the pre-processor by value but are no grammar keywords: plain identifiers
        return draw(st.sampled_from(SPECIAL_WORDS))
    if sty == "kwaffix":
        # identifiers that merely start / end with a keyword (collateral, my_default, Typeal ...)
        k = draw(st.sampled_from([x for x in KEYWORDS if x != "ARRAY"]))
        return draw(st.sampled_from([k + "x", k.lower() + "_id", "x" + k.lower(), k.capitalize() + "al", "my_" + k, k.lower() + "eral_value"]))
    if sty == "odd":
        # delimited names whose inner text is not identifier-shaped: leading digit, '$', '-', '.' (the latter only in double quotes)
        w = draw(gen.plain_ident(min_len=2, max_len=6))
        q = draw(st.sampled_from(["dq", "bt", "br"]))
        inner = draw(st.sampled_from(["9" + w, "2023_" + w, "$" + w, w + "-" + w[:2], "1", "0" + w + "$"] + ([w + "." + w[:2], "-" + w] if q == "dq" else [])))
        return gen.quote(inner, q)
    if sty in ("kw", "kwq") and (pool == "plainish" or not allow_kw):
        sty = "mixed"
    if sty == "kw":
        k = draw(st.sampled_from(KEYWORDS if pool == "col" else KEYWORDS_NO_IF))
        return kw_form(draw(st.integers(0, 2)), k)
    if sty == "kwq":
        k = kw_form(draw(st.integers(0, 2)), draw(st.sampled_from(KEYWORDS_NO_IF)))
        return gen.quote(k, draw(st.sampled_from(["dq", "bt", "br"])))
    w = draw(gen.plain_ident(min_len=2))
    if sty == "mixed":
        return w[:1].upper() + w[1:2].lower() + w[2:].upper()
    return gen.quote(w, sty)


def norm_key(n):
    return re.sub(r'[\[\]"`]', "", n).lower()


@st.composite
def distinct(draw, n, pool, avoid=()):
    seen = set(norm_key(a) for a in avoid)
    out = []
    for i in range(n):
        nm = draw(name(pool))
        if norm_key(nm) in seen:
            nm = draw(gen.plain_ident(min_len=2)) + "%dz" % i
            while norm_key(nm) in seen:
                nm += "z"
        seen.add(norm_key(nm))
        out.append(nm)
    return out


OPTS = ["none", "notnull", "default", "defstr", "pk", "unique", "ref", "size", "charset"]
# referential actions / column attributes whose last word is itself a keyword of other statements (SET, NULL): the name that follows
# them - next column, key list - is still a name
REF_ACTIONS = [None, None, None, ["ON", "DELETE", "SET", "NULL"], ["ON", "UPDATE", "SET", "NULL"], ["ON", "DELETE", "CASCADE"]]  # SET DEFAULT loses the table: known finding K9 (two-word actions)


@st.composite
def model_case(draw):
    n = draw(st.integers(2, 6))
    cols = draw(distinct(n, "col"))
    copts = [draw(st.sampled_from(OPTS)) for _ in cols]
    if copts.count("pk") > 1:
        copts = [o if (o != "pk" or i == copts.index("pk")) else "unique" for i, o in enumerate(copts)]
    others = draw(distinct(12, "obj", avoid=cols))
    tpk = None
    if "pk" not in copts and draw(st.booleans()):
        k = draw(st.integers(1, min(3, n)))
        tpk = {"cols": list(draw(st.permutations(list(range(n)))))[:k], "cname": others[0] if draw(st.booleans()) else None}
    uqs = []
    for j in range(draw(st.integers(0, 2))):
        k = draw(st.integers(2, min(3, n))) if n >= 2 else 1
        uqs.append({"cols": list(draw(st.permutations(list(range(n)))))[:k], "cname": others[1 + j]})
    fk = None
    if draw(st.integers(0, 2)) == 0:
        k = draw(st.integers(1, min(2, n)))
        free = [i for i in range(n) if copts[i] != "ref"]
        if len(free) >= k:
            fk = {"cols": list(draw(st.permutations(free)))[:k], "cname": others[3] if draw(st.booleans()) else None,
                  "rtable": draw(name("plainish")), "rschema": draw(st.one_of(st.none(), name("plainish"))), "rcols": draw(distinct(k, "col"))}
    refs = {}
    for i, o in enumerate(copts):
        if o == "ref":
            refs[str(i)] = {"rtable": draw(name("plainish")), "rschema": draw(st.one_of(st.none(), name("plainish"))), "rcol": draw(name("col")),
                            "action": draw(st.sampled_from(REF_ACTIONS))}
    index = None
    if draw(st.integers(0, 2)) == 0:
        k = draw(st.integers(1, min(3, n)))
        index = {"name": draw(name("plainish")), "cols": list(draw(st.permutations(list(range(n)))))[:k], "unique": draw(st.booleans())}
    decl = None
    if draw(st.integers(0, 2)) == 0:
        kind = draw(st.sampled_from(["type", "domain", "schema", "database", "tablespace", "sequence"]))
        nm = draw(name("obj"))
        if kind == "sequence" and nm.strip('"`[]').upper() in SEQ_REJECTED:
            nm = "sq_" + nm.strip('"`[]')
        if kind == "schema" and nm.startswith("`"):
            nm = nm.strip("`")  # K17: backticks are removed in CREATE SCHEMA
        decl = {"kind": kind, "name": nm, "schema": draw(st.one_of(st.none(), name("plainish"))) if kind in ("type", "domain", "sequence") else None}
    tname, tschema = others[5], draw(st.one_of(st.none(), name("obj")))
    if index:  # CREATE INDEX ... ON <table>: operands of INDEX / ALTER get non-keyword names
        tname, tschema = draw(name("plainish")), draw(st.one_of(st.none(), name("plainish")))
    return {"src": "model", "schema": tschema, "table": tname, "cols": cols, "copts": copts, "tpk": tpk, "uqs": uqs,
            "fk": fk, "refs": refs, "index": index, "decl": decl, "norm": draw(st.booleans()), "layout": draw(gen.layout(max_len=50))}


@st.composite
def diff_case(draw):
    # 're-spelled' tables are left out: a key clause naming `x` where the column is "x" links up only once both are stripped,
    # which is a legitimate consequence of normalisation, not an extra difference
    return {"src": "diff", "blocks": draw(universe.script(1, 3, kinds=[k for k in universe.BLOCK_KINDS if k != "rtable"])), "layout": draw(gen.layout(max_len=40)), "mode": draw(st.sampled_from(universe.MODES))}


# ---- sweep templates: position -> (statement tokens builder, checker(result, expected name))

def _cols(r):
    return [c["name"] for c in r[0]["columns"]]


SWEEP = {
    "col_first": ("create table t ({k} int, b int, c int);", lambda r, k: _cols(r) == [k, "b", "c"]),
    "col_mid": ("create table t (a int, {k} varchar(10) not null, c int);", lambda r, k: _cols(r) == ["a", k, "c"]),
    "col_last": ("create table t (a int, b int, {k} int);", lambda r, k: _cols(r) == ["a", "b", k]),
    "col_only": ("create table t ({k} int);", lambda r, k: _cols(r) == [k]),
    "col_after_default": ("create table t (a int default 5, {k} int, c int);", lambda r, k: _cols(r) == ["a", k, "c"]),
    "col_after_defstr": ("create table t (a varchar(5) default 'x', {k} int, c int);", lambda r, k: _cols(r) == ["a", k, "c"]),
    "col_after_notnull": ("create table t (a int not null, {k} int, c int);", lambda r, k: _cols(r) == ["a", k, "c"]),
    "col_after_pk": ("create table t (a int primary key, {k} int, c int);", lambda r, k: _cols(r) == ["a", k, "c"]),
    "col_after_unique": ("create table t (a int unique, {k} int, c int);", lambda r, k: _cols(r) == ["a", k, "c"]),
    "col_after_ref": ("create table t (a int references o (x), {k} int, c int);", lambda r, k: _cols(r) == ["a", k, "c"]),
    "col_after_size": ("create table t (a decimal(10,2), {k} int, c int);", lambda r, k: _cols(r) == ["a", k, "c"]),
    "col_two": ("create table t ({k} int, zz int, {k}_2 int);", lambda r, k: _cols(r) == [k, "zz", k + "_2"]),
    "pk_list": ("create table t (a int, {k} int, primary key (a, {k}));", lambda r, k: r[0]["primary_key"] == ["a", k] and _cols(r) == ["a", k]),
    "pk_list_first": ("create table t (a int, {k} int, primary key ({k}, a));", lambda r, k: r[0]["primary_key"] == [k, "a"] and _cols(r) == ["a", k]),
    "uq_list": ("create table t (a int, {k} int, constraint u1 unique (a, {k}));", lambda r, k: r[0]["constraints"]["uniques"][0]["columns"] == ["a", k]),
    "uq_single": ("create table t (a int, {k} int, unique ({k}));", lambda r, k: r[0]["columns"][1]["unique"] is True and _cols(r) == ["a", k]),
    "fk_list": ("create table t (a int, {k} int, foreign key ({k}) references o (x));",
                lambda r, k: r[0]["columns"][1]["references"]["table"] == "o" and _cols(r) == ["a", k]),
    "ref_col": ("create table t (a int, b int references o ({k}), c int);",
                lambda r, k: (r[0]["columns"][1]["references"].get("column") == k or r[0]["columns"][1]["references"].get("columns") == [k]) and _cols(r) == ["a", "b", "c"]),
    "index_col": ("create table t (a int, {k} int);\ncreate index ix on t ({k});", lambda r, k: r[0]["index"][0]["columns"] == [k]),
    "index_col2": ("create table t (a int, {k} int);\ncreate index ix on t (a, {k});", lambda r, k: r[0]["index"][0]["columns"] == ["a", k]),
    # the same positions behind a CHECK constraint (the lexer keeps a per-statement 'check' flag from there on)
    "col_after_check": ("create table t (a int check (a > 0), {k} int, c int);", lambda r, k: _cols(r) == ["a", k, "c"]),
    "col_after_named_check": ("create table t (a int constraint c1 check (a > 0), {k} int, c int);", lambda r, k: _cols(r) == ["a", k, "c"]),
    "pk_list_after_check": ("create table t (a int check (a > 0), {k} int, primary key ({k}, a));",
                            lambda r, k: r[0]["primary_key"] == [k, "a"] and _cols(r) == ["a", k]),
    "uq_single_after_check": ("create table t (a int check (a > 0), {k} int, unique ({k}));",
                              lambda r, k: r[0]["columns"][1]["unique"] is True and _cols(r) == ["a", k]),
    "fk_list_after_tcheck": ("create table t (a int, {k} int, constraint c1 check (a > 0), foreign key ({k}) references o (x));",
                             lambda r, k: r[0]["columns"][1]["references"]["table"] == "o" and _cols(r) == ["a", k]),
    "ref_col_after_check": ("create table t (a int check (a > 0), b int references o ({k}), c int);",
                            lambda r, k: (r[0]["columns"][1]["references"].get("column") == k or r[0]["columns"][1]["references"].get("columns") == [k]) and _cols(r) == ["a", "b", "c"]),
    "table_after_dot": ("create table s.{k} (a int, b int);", lambda r, k: r[0]["schema"] == "s" and r[0]["table_name"] == k),
    # positions observed to accept every keyword but IF
    "table": ("create table {k} (a int, b int);", lambda r, k: r[0]["table_name"] == k and _cols(r) == ["a", "b"]),
    "schema_q": ("create table {k}.t (a int, b int);", lambda r, k: r[0]["schema"] == k and r[0]["table_name"] == "t"),
    "constraint": ("create table t (a int, b int, constraint {k} primary key (a));", lambda r, k: r[0]["constraints"]["primary_keys"][0]["constraint_name"] == k),
    "type": ("create type {k} as enum ('a');", lambda r, k: r[0]["type_name"] == k),
    "domain": ("create domain {k} as char(3);", lambda r, k: r[0]["domain_name"] == k),
    "schema": ("create schema {k};", lambda r, k: r[0]["schema_name"] == k),
    "database": ("create database {k};", lambda r, k: r[0]["database_name"] == k),
    "tablespace": ("create tablespace {k};", lambda r, k: r[0]["tablespace_name"] == k),
    "sequence": ("create sequence {k} start 5 increment 2;", lambda r, k: r[0]["sequence_name"] == k and r[0]["start"] == 5 and r[0]["increment"] == 2),
    "sequence_q": ("create sequence s1.{k} cache 3;", lambda r, k: r[0]["sequence_name"] == k and r[0]["schema"] == "s1" and r[0]["cache"] == 3),
}
NO_IF_POSITIONS = {"table", "schema_q", "constraint", "type", "domain", "schema", "database", "tablespace"}
# a sequence name may be any keyword but the sequence option words themselves (and ARRAY, which the lexer treats as a type prefix)
SEQ_REJECTED = {"ARRAY", "CACHE", "INCREMENT", "MAXVALUE", "MINVALUE", "NO", "NOORDER", "ORDER", "START"}
KEYWORDS_SEQ = [k for k in KEYWORDS if k not in SEQ_REJECTED]
QUOTES = [("", ""), ('"', '"'), ("`", "`"), ("[", "]")]


def strip_all(s):
    """strip one outer delimiter pair from every delimited identifier in a compound string; single-quoted literals are skipped"""
    out, i = [], 0
    while i < len(s):
        ch = s[i]
        if ch == "'":
            j = i + 1
            while j < len(s):
                if s[j] == "'" and s[j + 1:j + 2] == "'":
                    j += 2
                    continue
                if s[j] == "'":
                    break
                j += 1
            out.append(s[i:j + 1])
            i = j + 1
            continue
        close = {'"': '"', "`": "`", "[": "]"}.get(ch)
        if close:
            j = s.find(close, i + 1)
            if j > i + 1:
                out.append(s[i + 1:j])
                i = j + 1
                continue
        out.append(ch)
        i += 1
    return "".join(out)


class C06(Prop):
    id = "C06"
    rule = ("case = (a) model: CREATE TABLE [s.]t with 2..6 columns (each after one of 8 option kinds), optional [named] table-level "
            "PRIMARY KEY, named UNIQUE constraints, [named] FOREIGN KEY, inline REFERENCES, optional CREATE [UNIQUE] INDEX and one "
            "TYPE / DOMAIN / SCHEMA / DATABASE / TABLESPACE / SEQUENCE declaration; every name drawn from plain, mixed case, \"..\", "
            "\".. ..\", `..`, [..], keyword-shaped (87 keywords x 3 case forms) and delimited keyword names; both normalize_names "
            "settings; (b) sweep keyword x case form x 37 naming positions x 4 quoting forms; (c) diff of the two settings over "
            "universe scripts in a drawn mode; non-trivial = >= 1 delimited and >= 1 keyword-shaped identifier in >= 3 distinct "
            "naming positions (diff: >= 2 delimited identifiers); distinct = SHA-1 of the case")
    budgets = {"quick": 3000, "thorough": 150000}
    assumptions = [
        "keyword-shaped names are placed in column positions, key / unique / foreign-key / index column lists, referenced columns "
        "(the property's claim) and in table / schema-qualifier / constraint / type / domain / schema / database / tablespace names "
        "(all but IF); index names, sequence names, referenced table names and ALTER operands get non-keyword names",
        "backtick-delimited names are not generated in CREATE SCHEMA (known finding K17)",
        "double-quoted values (DEFAULT \"x\") are not generated",
    ]

    def strategy(self, tier):
        return st.one_of(model_case(), model_case(), diff_case())

    def enumerated(self, tier):
        n = 0
        for pos in sorted(SWEEP):
            pool = KEYWORDS_SEQ if pos.startswith("sequence") else KEYWORDS_NO_IF if pos in NO_IF_POSITIONS else KEYWORDS
            for ki, k in enumerate(pool):
                for f in range(3):
                    for q in range(4):
                        n += 1
                        # quick: a deterministic half of the sweep, thorough: all of it
                        if tier == "quick" and (ki + f + q + len(pos)) % 2 != 0:
                            continue
                        if pos == "schema" and q == 2:
                            continue  # K17
                        yield {"src": "sweep", "pos": pos, "kw": kw_form(f, k), "q": q, "norm": (ki + f + q) % 2 == 0}
        # the same sweep for the non-keyword special words and for realistic names that start / end with a keyword
        words = [w for w in SPECIAL_WORDS + gen.REALISTIC_NAMES]
        for pi, pos in enumerate(sorted(SWEEP)):
            for wi, w in enumerate(words):
                if pos == "schema" and w == "authorization":
                    continue
                if tier == "quick" and (wi + pi) % 3 != 0:
                    continue
                yield {"src": "sweep", "pos": pos, "kw": w, "q": (wi + pi) % 4 if not (pos == "schema" and (wi + pi) % 4 == 2) else 0, "norm": (wi + pi) % 2 == 0}

    # ---- (b)
    def eval_sweep(self, case):
        out = Outcome()
        tpl, chk = SWEEP[case["pos"]]
        a, b = QUOTES[case["q"]]
        written = a + case["kw"] + b
        expected = case["kw"] if (case["norm"] and case["q"]) else written
        ddl = tpl.replace("{k}_2", (a + case["kw"] + "_2" + b)).replace("{k}", written)
        if case["pos"] == "col_two":
            # second name: same keyword with a suffix - checker compares k + "_2"
            exp2 = (case["kw"] + "_2") if (case["norm"] and case["q"]) else (a + case["kw"] + "_2" + b)
        out.nontrivial = True
        out.label("sweep:" + case["pos"], "quote=%d" % case["q"])
        r = loader.try_parse(ddl, normalize_names=case["norm"])
        out.parses += 1
        if r[0] != "ok":
            out.fail("sweep-exception", "%s: %s on %r" % (r[1], r[2], ddl))
            return out
        ok = False
        if r[1]:
            try:
                if case["pos"] == "col_two":
                    ok = _cols(r[1]) == [expected, "zz", exp2]
                else:
                    ok = bool(chk(r[1], expected))
            except (KeyError, IndexError, TypeError, AttributeError):
                ok = False
        if not ok:
            out.fail("keyword-name:" + case["pos"], "name %r (normalize_names=%s) not reported as %r; %r -> %r" % (written, case["norm"], expected, ddl, r[1]))
        return out

    # ---- (a)
    def statements(self, c):
        items = []
        for i, (nm, o) in enumerate(zip(c["cols"], c["copts"])):
            toks = [I(nm)]
            if o == "size":
                toks += [T("decimal")] + plist([[N(10)], [N(2)]])
            else:
                toks += [T("int")]
            if o == "notnull":
                toks += K("NOT", "NULL")
            elif o == "default":
                toks += K("DEFAULT") + [N(5)]
            elif o == "defstr":
                toks += K("DEFAULT") + [L("'x'")]
            elif o == "pk":
                toks += K("PRIMARY", "KEY")
            elif o == "unique":
                toks += K("UNIQUE")
            elif o == "ref":
                ref = c["refs"][str(i)]
                toks += K("REFERENCES") + [I((ref["rschema"] + "." if ref["rschema"] else "") + ref["rtable"])] + plist([[I(ref["rcol"])]])
                if ref.get("action"):
                    toks += K(*ref["action"][:2]) + [V(w) for w in ref["action"][2:]]
            elif o == "charset":
                toks = [I(nm), T("varchar")] + plist([[N(10)]]) + K("CHARACTER", "SET") + [V("utf8")]
            items.append({"raw": toks})
        con = lambda n: (K("CONSTRAINT") + [I(n)]) if n else []
        if c["tpk"]:
            items.append({"raw": con(c["tpk"]["cname"]) + K("PRIMARY", "KEY") + plist([[I(c["cols"][i])] for i in c["tpk"]["cols"]])})
        for u in c["uqs"]:
            items.append({"raw": con(u["cname"]) + K("UNIQUE") + plist([[I(c["cols"][i])] for i in u["cols"]])})
        if c["fk"]:
            f = c["fk"]
            items.append({"raw": con(f["cname"]) + K("FOREIGN", "KEY") + plist([[I(c["cols"][i])] for i in f["cols"]]) + K("REFERENCES") +
                          [I((f["rschema"] + "." if f["rschema"] else "") + f["rtable"])] + plist([[I(x)] for x in f["rcols"]])})
        full = (c["schema"] + "." if c["schema"] else "") + c["table"]
        stmts = [gen.create_table_tokens({"schema": c["schema"], "name": c["table"], "items": items})]
        if c["index"]:
            ix = c["index"]
            stmts.append(K("CREATE") + (K("UNIQUE") if ix["unique"] else []) + K("INDEX") + [I(ix["name"])] + K("ON") + [I(full)] +
                         plist([[I(c["cols"][i])] for i in ix["cols"]]) + [END])
        d = c["decl"]
        if d:
            q = (d["schema"] + "." if d.get("schema") else "") + d["name"]
            if d["kind"] == "type":
                stmts.append(K("CREATE", "TYPE") + [I(q)] + K("AS") + [V("ENUM")] + plist([[L("'a'")], [L("'b'")]]) + [END])
            elif d["kind"] == "domain":
                stmts.append(K("CREATE", "DOMAIN") + [I(q)] + K("AS") + [T("char")] + plist([[N(3)]]) + [END])
            elif d["kind"] == "sequence":
                stmts.append(K("CREATE", "SEQUENCE") + [I(q)] + K("START") + [N(1), END])
            else:
                stmts.append(K("CREATE", d["kind"].upper()) + [I(q), END])
        return stmts

    def describe(self, case):
        if case["src"] == "sweep":
            tpl = SWEEP[case["pos"]][0]
            a, b = QUOTES[case["q"]]
            return {"ddl": tpl.replace("{k}_2", a + case["kw"] + "_2" + b).replace("{k}", a + case["kw"] + b), "normalize_names": case["norm"], "position": case["pos"]}
        if case["src"] == "diff":
            return {"ddl": universe.render_blocks(case["blocks"], case["layout"]), "mode": case["mode"], "oracle": "diff of normalize_names False / True"}
        return {"ddl": render_script(self.statements(case), case["layout"]), "normalize_names": case["norm"]}

    def eval_model(self, c):
        out = Outcome()
        ddl = render_script(self.statements(c), c["layout"])
        norm = c["norm"]
        e = (lambda n: strip_delims(n) if (norm and n is not None) else n)
        allnames = c["cols"] + [c["table"]] + ([c["schema"]] if c["schema"] else [])
        delimited = sum(1 for n in allnames if n[0] in '"`[')
        kwshaped = sum(1 for n in allnames if n.strip('"`[]').upper() in gen.RESERVED)
        positions = 2 + bool(c["tpk"]) + bool(c["uqs"]) + bool(c["fk"]) + bool(c["refs"]) + bool(c["index"]) + bool(c["decl"])
        out.nontrivial = delimited >= 1 and kwshaped >= 1 and positions >= 3
        out.label("model", "norm=%s" % norm, "delimited=%d" % min(delimited, 4), "kwshaped=%d" % min(kwshaped, 4))
        r = loader.try_parse(ddl, normalize_names=norm)
        out.parses += 1
        if r[0] != "ok":
            out.fail("exception", "%s: %s on %r" % (r[1], r[2], ddl))
            return out
        res = r[1]
        want_entities = 1 + bool(c["decl"])
        with compare(out, "result"):
            if len(res) != want_entities or "columns" not in res[0]:
                out.fail("entity-count", "expected %d entities got %r; %r" % (want_entities, [sorted(x)[:3] for x in res], ddl))
                return out
            t = res[0]
            bad = lambda what, exp, got: out.fail("name:" + what, "%s: written/expected %r reported %r (normalize_names=%s); %r" % (what, exp, got, norm, ddl))
            if t["table_name"] != e(c["table"]):
                bad("table", e(c["table"]), t["table_name"])
            if t["schema"] != e(c["schema"]):
                bad("schema", e(c["schema"]), t["schema"])
            cols = [x["name"] for x in t["columns"]]
            if cols != [e(n) for n in c["cols"]]:
                bad("columns", [e(n) for n in c["cols"]], cols)
                return out
            pk = [c["cols"][i] for i, o in enumerate(c["copts"]) if o == "pk"]
            if c["tpk"]:
                pk = [c["cols"][i] for i in c["tpk"]["cols"]]
            if t["primary_key"] != [e(n) for n in pk]:
                bad("primary_key", [e(n) for n in pk], t["primary_key"])
            cons = t.get("constraints") or {}
            if c["tpk"] and c["tpk"]["cname"]:
                g = [(x["constraint_name"], x["columns"]) for x in cons.get("primary_keys", [])]
                if g != [(e(c["tpk"]["cname"]), [e(c["cols"][i]) for i in c["tpk"]["cols"]])]:
                    bad("constraint-pk", c["tpk"], g)
            gu = sorted((x["constraint_name"], tuple(x["columns"])) for x in cons.get("uniques", []))
            wu = sorted((e(u["cname"]), tuple(e(c["cols"][i]) for i in u["cols"])) for u in c["uqs"])
            if gu != wu:
                bad("constraint-unique", wu, gu)
            for i, o in enumerate(c["copts"]):
                if o == "ref":
                    ref = c["refs"][str(i)]
                    g = t["columns"][i]["references"]
                    if not g or g.get("table") != e(ref["rtable"]) or g.get("schema") != e(ref["rschema"]) or \
                            (g.get("column") != e(ref["rcol"]) and g.get("columns") != [e(ref["rcol"])]):
                        bad("references", ref, g)
            if c["fk"]:
                f = c["fk"]
                if f["cname"]:
                    g = [(x["constraint_name"], x["columns"], x["table"], x["schema"]) for x in cons.get("references", [])]
                    w = [(e(f["cname"]), [e(x) for x in f["rcols"]], e(f["rtable"]), e(f["rschema"]))]
                    if g != w:
                        bad("constraint-fk", w, g)
                else:
                    for i, rc in zip(f["cols"], f["rcols"]):
                        g = t["columns"][i]["references"]
                        if not g or g.get("table") != e(f["rtable"]) or g.get("schema") != e(f["rschema"]) or g.get("column") != e(rc):
                            bad("fk-references", (f["rtable"], rc), g)
            if c["index"]:
                ix = c["index"]
                g = [(x["index_name"], x["columns"], [d["name"] for d in x["detailed_columns"]]) for x in t["index"]]
                w = [(e(ix["name"]), [e(c["cols"][i]) for i in ix["cols"]], [e(c["cols"][i]) for i in ix["cols"]])]
                if g != w:
                    bad("index", w, g)
            if c["decl"]:
                d = c["decl"]
                key = {"type": "type_name", "domain": "domain_name", "schema": "schema_name", "database": "database_name",
                       "tablespace": "tablespace_name", "sequence": "sequence_name"}[d["kind"]]
                ent = res[1]
                if ent.get(key) != e(d["name"]):
                    bad("declaration-" + d["kind"], e(d["name"]), ent.get(key))
                if d["kind"] in ("type", "domain", "sequence") and ent.get("schema") != e(d.get("schema")):
                    bad("declaration-schema", e(d.get("schema")), ent.get("schema"))
        return out

    # ---- (c)
    def eval_diff(self, case):
        out = Outcome()
        ddl = universe.render_blocks(case["blocks"], case["layout"])
        ra = loader.try_parse(ddl, normalize_names=False, output_mode=case["mode"])
        rb = loader.try_parse(ddl, normalize_names=True, output_mode=case["mode"])
        out.parses += 2
        out.label("diff", "mode:" + case["mode"])
        if ra[0] != "ok" or rb[0] != "ok":
            if ra[0] != rb[0] or ra[1] != rb[1]:
                out.fail("diff-exception", "normalize_names=False: %r, True: %r; %r" % (ra[:3] if ra[0] != "ok" else "ok", rb[:3] if rb[0] != "ok" else "ok", ddl))
            return out
        stats = {"stripped": 0}

        def walk(a, b, path):
            if isinstance(a, dict) and isinstance(b, dict):
                if list(a) != list(b):
                    ka = [strip_all(k) if isinstance(k, str) else k for k in a]
                    if ka != list(b):
                        out.fail("diff-structure", "%s: keys %r vs %r; %r" % (path, list(a), list(b), ddl))
                        return
                for (k1, v1), (k2, v2) in zip(a.items(), b.items()):
                    walk(v1, v2, "%s.%s" % (path, k1))
            elif isinstance(a, (list, tuple)) and isinstance(b, (list, tuple)):
                if len(a) != len(b):
                    out.fail("diff-structure", "%s: %d vs %d elements; %r" % (path, len(a), len(b), ddl))
                    return
                for x, y in zip(a, b):
                    walk(x, y, path + "[]")
            elif (a != b or type(a) is not type(b)) and path.endswith(".comment"):
                # a COMMENT text is a value, not a name - also when it is written in double quotes
                out.fail("diff-value-changed", "%s: comment text %r (normalize_names=False) vs %r (True); %r" % (path, a, b, ddl))
            elif a != b or type(a) is not type(b):
                if isinstance(a, str) and isinstance(b, str) and (strip_delims(a) == b or gen.ws_free(strip_all(gen.ws_free(a))) == gen.ws_free(b)):
                    stats["stripped"] += 1
                else:
                    out.fail("diff-other-change", "%s: %r (normalize_names=False) vs %r (True) is not a delimiter strip; %r" % (path, a, b, ddl))
            elif isinstance(b, str) and NAME_PATHS.search(path) and len(b) > 2 and (b[0] + b[-1]) in ('""', "``", "[]") and "properties" not in path and "'" not in b:
                out.fail("diff-not-stripped", "%s: identifier %r keeps its delimiters under normalize_names=True; %r" % (path, b, ddl))

        walk(ra[1], rb[1], "")
        out.nontrivial = stats["stripped"] >= 2
        return out

    def evaluate(self, case):
        if case["src"] == "sweep":
            return self.eval_sweep(case)
        if case["src"] == "diff":
            return self.eval_diff(case)
        return self.eval_model(case)


PROP = C06()
