"""C15 - parser objects do not interfere, sequentially or across threads.

Oracle: history invariant against isolated references (sdpv.isolated: a process in which exactly one parser object ever
existed). Two kinds of histories:
  ops   - sequential interleavings of {construct(i), run(i, args)} over 2..4 objects with different texts and flags,
          including constructing one object between another's construction and its run;
  sched - every object's `construct; run` executes in its own thread under a harness-owned deterministic scheduler: PLY's
          API boundaries (ply.lex.lex returns, ply.yacc.yacc returns, LRParser.parse is entered = once per statement) are
          yield points, exactly one thread runs between two yield points, and a drawn list decides who advances. Every
          schedule at statement granularity is reachable and replayable; for a fixed pair of two-statement objects all 252 (and for a RegexSerDe / TBLPROPERTIES pair all 126)
          interleavings are enumerated in every run.
Thorough adds free-running threads as a stress supplement.
  logcfg - objects that differ in their logging arguments (log_level, log_file) in fresh interpreters with an unconfigured root logger;
          reference = the same object as the only parser of its own fresh interpreter.
"""
import itertools
import json
import os
import shutil
import subprocess
import sys
import tempfile
import threading

from hypothesis import strategies as st

from .. import gen, isolated, loader, universe
from ..engine import Outcome, Prop
from . import c04, c14

# ------------------------------------------------------------------ deterministic scheduler


STEP_TIMEOUT = 15  # seconds for one statement (normally milliseconds); only used to turn a deadlock into a reported outcome


class Sched:
    def __init__(self):
        self.tl = threading.local()
        self.ctl = threading.Semaphore(0)
        self.workers = {}

    def yield_point(self, label):
        w = getattr(self.tl, "w", None)
        if w is None:
            return
        w["at"] = label
        self.ctl.release()
        w["go"].acquire()

    def spawn(self, name, fn):
        w = {"go": threading.Semaphore(0), "done": False, "at": "start", "res": None, "name": name, "switches": 0}

        def body():
            self.tl.w = w
            w["go"].acquire()
            try:
                w["res"] = ("ok", fn())
            except Exception as e:
                w["res"] = ("exc", type(e).__name__, str(e)[:600], [c.__name__ for c in type(e).__mro__])
            w["done"] = True
            self.tl.w = None
            self.ctl.release()

        t = threading.Thread(target=body, daemon=True)
        w["t"] = t
        self.workers[name] = w
        t.start()
        return w

    def step(self, name):
        w = self.workers[name]
        if w["done"]:
            return False
        w["go"].release()
        if not self.ctl.acquire(timeout=STEP_TIMEOUT):
            # the thread neither reached its next yield point nor finished: it is blocked on something another parser holds
            w["done"] = True
            w["blocked"] = True
            w["res"] = ("exc", "Blocked", "thread did not reach its next statement within %ds (blocked by another parser object)" % STEP_TIMEOUT, [])
            return False
        return True


_S = {"sched": None, "patched": False}


def _patch():
    if _S["patched"]:
        return
    import ply.lex
    import ply.yacc
    import simple_ddl_parser.parser as pp

    _lex, _yacc, _parse = ply.lex.lex, ply.yacc.yacc, ply.yacc.LRParser.parse

    def lex_w(*a, **k):
        r = _lex(*a, **k)
        if _S["sched"]:
            _S["sched"].yield_point("after_lex")
        return r

    def yacc_w(*a, **k):
        r = _yacc(*a, **k)
        if _S["sched"]:
            _S["sched"].yield_point("after_yacc")
        return r

    def parse_w(self, *a, **k):
        if _S["sched"]:
            _S["sched"].yield_point("before_parse")
        return _parse(self, *a, **k)

    # the library calls lex.lex / yacc.yacc through its own module references
    pp.lex.lex = lex_w
    pp.yacc.yacc = yacc_w
    ply.yacc.LRParser.parse = parse_w
    _S["patched"] = True


def run_schedule(jobs, schedule, exact=False):
    """jobs: list of callables; schedule: list of ints -> (results per job, trace of (job, yield point))"""
    _patch()
    s = Sched()
    _S["sched"] = s
    try:
        for i, fn in enumerate(jobs):
            s.spawn(i, fn)
        trace = []
        last = None
        for pick in schedule:
            alive = [i for i in range(len(jobs)) if not s.workers[i]["done"]]
            if not alive:
                break
            who = pick if (exact and pick in alive) else alive[pick % len(alive)]
            s.step(who)
            if last is not None and last != who:
                s.workers[who]["switches"] += 1
            last = who
            trace.append((who, "done" if s.workers[who]["done"] else s.workers[who]["at"]))
        for i in range(len(jobs)):
            while s.step(i):
                trace.append((i, "done" if s.workers[i]["done"] else s.workers[i]["at"]))
        return [s.workers[i]["res"] for i in range(len(jobs))], trace, [s.workers[i]["switches"] for i in range(len(jobs))]
    finally:
        _S["sched"] = None


# ------------------------------------------------------------------ cases

IDENT_STYLES = ("plain", "dq", "br", "bt")
REGEX_ITEMS = [i for i, it in enumerate(universe.corpus()) if "input.regex" in it["ddl"]]


@st.composite
def obj(draw):
    k = draw(st.integers(0, 12))
    if k == 12:
        # a dialect short form, run in its own dialect's mode (the per-dialect output classes and their defaults are shared by all objects)
        text, mode = draw(st.sampled_from(universe.SHORT_FORMS))
        run = draw(c14.run_args())
        return {"src": {"t": "raw", "text": text}, "ctor": {"normalize_names": draw(st.booleans())}, "run": dict(run, output_mode=draw(st.sampled_from([mode, mode, "sql"])))}
    if k == 11:
        src = draw(c14.kw_source())
    elif k == 10:
        # the corpus scripts with a Hive RegexSerDe "input.regex" property: their value travels through parser-object state
        src = {"t": "corpus", "item": draw(st.sampled_from(REGEX_ITEMS))}
    elif k < 7:
        blocks = draw(universe.script(1, 3, kinds=["tables", "ctable", "alter", "seq", "decl", "dtable", "xtable", "drop", "like", "typed"], unsupported_p=3, families=("rejected",)))
        src = {"t": "gen", "blocks": blocks, "layout": None, "ops": [], "unterminated": False, "trailing_set": False}
    else:
        src = {"t": "corpus", "item": draw(st.integers(0, len(universe.corpus()) - 1))}
    ctor = {"normalize_names": draw(st.booleans())}
    if draw(st.booleans()):
        ctor["silent"] = draw(st.booleans())
    return {"src": src, "ctor": ctor, "run": draw(c14.run_args())}


@st.composite
def ops_case(draw):
    n = draw(st.integers(2, 4))
    objs = [draw(obj()) for _ in range(n)]
    if draw(st.integers(0, 5)) == 0:
        # two objects holding the two halves of one script: the tables, and ALTER / INDEX statements naming those tables (which
        # must raise in a parser that never saw the tables, whatever another object parsed before)
        c = draw(c04.case_strategy(4))
        c["undefined"] = None
        c.pop("layout", None)
        for i, part in enumerate(["tables", "ops"]):
            objs[i] = dict(objs[i], src={"t": "split", "c04": c, "part": part})
    tokens = []
    for i in range(n):
        tokens += [i] * (1 + draw(st.integers(1, 2)))
    order = list(draw(st.permutations(tokens)))
    return {"kind": "ops", "objs": objs, "order": order}


@st.composite
def sched_case(draw):
    n = draw(st.integers(2, 3))
    objs = [draw(obj()) for _ in range(n)]
    schedule = draw(st.lists(st.integers(0, 5), min_size=0, max_size=40))
    return {"kind": "sched", "objs": objs, "schedule": schedule}


def _tbl(name, col):
    return {"k": "tables", "c": {"tables": [{"schema": None, "name": name, "items": [{"col": {"name": col, "type": "int", "size": None, "opts": []}}]}]}}


FIXED_A = {"src": {"t": "gen", "blocks": [_tbl('"A"', '"x"'), _tbl('"A2"', "[y]")], "layout": None, "ops": [], "unterminated": False, "trailing_set": False},
           "ctor": {"normalize_names": True}, "run": {"output_mode": "sql"}}
FIXED_B = {"src": {"t": "gen", "blocks": [_tbl('"B"', '"y"'), {"k": "raw", "c": {"family": "rejected", "text": "SELECT 1;"}}], "layout": None, "ops": [],
                   "unterminated": False, "trailing_set": False}, "ctor": {"normalize_names": False, "silent": False}, "run": {"output_mode": "hql"}}


class C15(Prop):
    id = "C15"
    rule = ("case = (ops) sequential interleaving of construct(i) / run(i, args) over 2..4 parser objects (1..2 runs each) with "
            "different texts (generated scripts of every kind with rejected statements, corpus scripts incl. the RegexSerDe ones, or "
            "statements with keyword-shaped names in 41 positions), "
            "normalize_names and silent settings and run arguments; or (sched) 2..3 objects whose `construct; run` execute in "
            "threads under the deterministic scheduler with a drawn schedule (yield points: after ply.lex.lex, after ply.yacc.yacc, "
            "before every LRParser.parse = per statement); all 252 interleavings of a fixed two-object pair are enumerated in every "
            "run (thorough: three pairs); invariant: every run returns its isolated single-parser reference (or raises the same "
            "exception); non-trivial = objects differing in normalize_names or silent and (sched) >= 2 context switches between one "
            "object's construction and the end of its run, (ops) a construction between another object's construction and run; "
            "distinct = SHA-1 of the case")
    budgets = {"quick": 2000, "thorough": 40000}
    assumptions = [
        "schedules are explored at statement granularity (PLY API boundaries), as the property states; finer interleavings only by the "
        "free-running stress supplement of the thorough tier",
        "reference = a forked process in which exactly one parser object is constructed and run once (sdpv/isolated.py)",
    ]

    def prepare(self, tier):
        isolated.start()

    def strategy(self, tier):
        return st.one_of(ops_case(), sched_case())

    def machine(self, tier, collector):
        """sequential interleavings in Hypothesis' stateful mode: rules construct a new object or run an existing one; every
        history so far is evaluated as an ordinary (replayable) 'ops' case"""
        from hypothesis.stateful import RuleBasedStateMachine, initialize, precondition, rule

        prop = self

        class Interleave(RuleBasedStateMachine):
            def __init__(self):
                super().__init__()
                self.objs, self.order, self.broken = [], [], False

            @initialize(a=obj(), b=obj())
            def two_objects(self, a, b):
                self.objs += [a, b]
                self.order += [0, 1]  # first occurrence of an index = construction

            @precondition(lambda self: len(self.objs) < 4)
            @rule(o=obj())
            def construct(self, o):
                if self.broken:
                    return
                self.objs.append(o)
                self.order.append(len(self.objs) - 1)

            @rule(i=st.integers(0, 3))
            def run(self, i):
                if self.broken:  # a violating history was already handed to the collector
                    return
                self.order.append(i % len(self.objs))
                case = {"kind": "ops", "objs": list(self.objs), "order": list(self.order)}
                out = prop.evaluate(case)
                collector.record(case, out)
                if out.violations:
                    self.broken = True

        return Interleave

    def enumerated(self, tier):
        # steps of a thread: after_lex, after_yacc, before_parse x statements, done
        regex = {"src": {"t": "corpus", "item": REGEX_ITEMS[0]}, "ctor": {}, "run": {"output_mode": "hql"}}
        props = {"src": {"t": "raw", "text": "CREATE TABLE p1 (a int) TBLPROPERTIES ('k1'='v1', 'k2'='v2');\nCREATE TABLE p2 (b int) STORED AS ORC;\n"},
                 "ctor": {}, "run": {"output_mode": "hql"}}
        pairs = [(FIXED_A, FIXED_B, 5, 5), (regex, props, 4, 5)]
        if tier == "thorough":
            pairs += [(FIXED_B, FIXED_A, 5, 5), (FIXED_A, dict(FIXED_A, ctor={"normalize_names": False}), 5, 5), (regex, FIXED_B, 4, 5)]
        # mode-pair sweep: every dialect-specific corpus script, run with its own test configuration, after a parser that ran a
        # script of another dialect in that dialect's mode (per-dialect classes / caches must not bleed into each other)
        corpus = universe.corpus()

        def as_obj(i):
            it = corpus[i]
            ctor = {k: v for k, v in it["ctor"].items() if k in ("normalize_names", "silent")}
            run = {k: v for k, v in it["run"].items() if k in ("output_mode", "group_by_type")}
            return {"src": {"t": "corpus", "item": i}, "ctor": ctor, "run": run}

        reps = {}
        for i, it in enumerate(corpus):
            m = it["run"].get("output_mode")
            if m and m != "sql":
                reps.setdefault(m, i)
        for i, it in enumerate(corpus):
            m = it["run"].get("output_mode")
            if not m or m == "sql":
                continue
            for n, (m2, j) in enumerate(sorted(reps.items())):
                if m2 == m or (tier == "quick" and (i + n) % 3):
                    continue
                yield {"kind": "ops", "objs": [as_obj(j), as_obj(i)], "order": [0, 0, 1, 1]}
        # logging arguments: the first object of a process configures the root logger; no other object's result may depend on that
        t_ok = "CREATE TABLE la (id int, \"Name\" varchar(10));\nCREATE TRIGGER trg BEFORE INSERT ON la FOR EACH ROW EXECUTE FUNCTION f();\nCREATE TABLE lb (x int);\n"
        t_plain = "CREATE TABLE lc (\"id\" int PRIMARY KEY);\nCREATE SEQUENCE lseq START 5;\n"
        log_ctors = [{"log_level": 10}, {"log_level": "DEBUG"}, {"log_level": 40}, {"log_level": 10, "log_file": "parser.log"}, {"log_level": 50, "silent": False}]
        other_ctors = [{}, {"silent": False}, {"normalize_names": True}]
        for a_i, ca in enumerate(log_ctors):
            for b_i, cb in enumerate(other_ctors):
                if tier == "quick" and (a_i + b_i) % 2:
                    continue
                a = {"text": t_ok if a_i % 2 == 0 else t_plain, "ctor": ca, "run": {}}
                b = {"text": t_ok, "ctor": cb, "run": {"output_mode": "mysql"} if b_i == 2 else {}}
                yield {"kind": "logcfg", "objs": [a, b], "order": [0, 1, 1, 0] if b_i % 2 == 0 else [1, 0, 0, 1]}
        # short-form sweep: every dialect short form, then every other text of the same dialect (and a plain table) in that dialect's mode
        sf = universe.SHORT_FORMS
        for i, (ta, ma) in enumerate(sf):
            for j, (tb, mb) in enumerate(sf):
                if i != j and (mb == ma or mb == "sql"):
                    a = {"src": {"t": "raw", "text": ta}, "ctor": {}, "run": {"output_mode": ma}}
                    b = {"src": {"t": "raw", "text": tb}, "ctor": {}, "run": {"output_mode": ma}}
                    yield {"kind": "ops", "objs": [a, b], "order": [0, 1, 0, 1] if (i + j) % 2 else [0, 0, 1, 1]}
        for a, b, na, nb in pairs:
            for combo in itertools.combinations(range(na + nb), na):  # C(10, 5) = 252 / C(9, 4) = 126 interleavings
                order = [0 if i in combo else 1 for i in range(na + nb)]
                yield {"kind": "sched", "objs": [a, b], "schedule": order, "exact": True}

    def describe(self, case):
        if case["kind"] == "logcfg":
            return {"kind": "logcfg", "texts": [o["text"] for o in case["objs"]], "flags": [o["ctor"] for o in case["objs"]], "history": case["order"]}
        d = {"kind": case["kind"], "texts": [c14.source_text(o["src"]) for o in case["objs"]], "flags": [o["ctor"] for o in case["objs"]],
             "run_args": [o["run"] for o in case["objs"]]}
        d["history"] = case["order"] if case["kind"] == "ops" else case["schedule"]
        return d

    def compare(self, out, tag, got, ref, text):
        if got[0] != ref[0]:
            out.fail("outcome-differs", "%s %s but alone it %s; text=%r" % (
                tag, "returns" if got[0] == "ok" else "raises %s: %s" % (got[1], got[2]), "returns" if ref[0] == "ok" else "raises %s: %s" % (ref[1], ref[2]), text))
        elif got[0] == "exc":
            if got[1] != ref[1] or got[2] != ref[2]:
                out.fail("exception-differs", "%s raises %s: %s, alone it raises %s: %s; text=%r" % (tag, got[1], got[2], ref[1], ref[2], text))
        elif got[1] != ref[1]:
            out.fail("result-differs", "%s\n returned %r\n alone    %r\n text=%r" % (tag, got[1], ref[1], text))

    def evaluate_logcfg(self, case):
        """objects that differ in their logging arguments (log_level, log_file), in fresh interpreters whose root logger is exactly as a user's
        process has it (unconfigured): each object's run() in the shared process must equal its run() as the only parser of a process"""
        out = Outcome()
        objs = case["objs"]
        out.label("kind:logcfg", "objects=%d" % len(objs))
        out.nontrivial = len(set(json.dumps(o["ctor"], sort_keys=True) for o in objs)) >= 2

        def child(spec, tag):
            d = tempfile.mkdtemp(prefix="c15_log_", dir=loader.scratch_dir())
            try:
                with open(os.path.join(d, "spec.json"), "w") as f:
                    json.dump(spec, f)
                env = dict(os.environ, PYTHONPATH=loader.scratch_dir(), PYTHONHASHSEED="0")
                p = subprocess.run([sys.executable, "-c", _LOG_CHILD, "spec.json"], cwd=d, env=env, stdout=subprocess.PIPE, stderr=subprocess.DEVNULL, timeout=600)
                if p.returncode != 0:
                    return None
                return json.loads(p.stdout.decode().strip().splitlines()[-1])
            finally:
                shutil.rmtree(d, ignore_errors=True)

        alone = []
        for i, o in enumerate(objs):
            r = child({"objs": [o], "order": [0, 0]}, "alone%d" % i)
            out.parses += 1
            if r is None:
                out.excluded = "logcfg-child-failed-alone"  # the object cannot even run alone with these arguments: nothing to compare
                return out
            alone.append(r[0][1:])
        got = child({"objs": objs, "order": case["order"]}, "shared")
        out.parses += len(objs)
        if got is None:
            out.fail("logcfg-shared-process-crashed", "objects %r, history %r" % ([o["ctor"] for o in objs], case["order"]))
            return out
        for rec in got:
            i, res = rec[0], rec[1:]
            if res != alone[i]:
                out.fail("logcfg-result-differs", "object %d (constructor arguments %r) in history %r with objects %r:\n shared process %r\n alone %r" % (
                    i, objs[i]["ctor"], case["order"], [o["ctor"] for o in objs], [str(x)[:400] for x in res], [str(x)[:400] for x in alone[i]]))
                break
        return out

    def evaluate(self, case):
        if case["kind"] == "logcfg":
            return self.evaluate_logcfg(case)
        out = Outcome()
        if _S.get("poisoned"):
            # a deadlock was reported in this worker process: whatever is held stays held, every further parse here would block
            out.excluded = "worker-blocked-by-an-earlier-deadlock"
            return out
        objs = case["objs"]
        texts = [c14.source_text(o["src"]) for o in objs]
        refs = [isolated.reference(t, o["ctor"], o["run"]) for t, o in zip(texts, objs)]
        flags = set((o["ctor"].get("normalize_names", False), o["ctor"].get("silent", True)) for o in objs)
        out.label("kind:" + case["kind"], "objects=%d" % len(objs), "flag_variants=%d" % len(flags))
        if case["kind"] == "ops":
            parsers = {}
            between = False
            constructed_not_run = set()
            for n, i in enumerate(case["order"]):
                i = i % len(objs)
                if i not in parsers:
                    if constructed_not_run:
                        between = True
                    try:
                        parsers[i] = loader.make_parser(texts[i], **objs[i]["ctor"])
                    except Exception as e:
                        out.fail("constructor-raises", "%s: %s" % (type(e).__name__, e))
                        return out
                    constructed_not_run.add(i)
                    continue
                constructed_not_run.discard(i)
                try:
                    got = ("ok", parsers[i].run(**objs[i]["run"]))
                except Exception as e:
                    got = ("exc", type(e).__name__, str(e)[:600], [c.__name__ for c in type(e).__mro__])
                out.parses += 1
                self.compare(out, "op %d: object %d (flags %r) run(%r) in history %r" % (n, i, objs[i]["ctor"], objs[i]["run"], case["order"]), got, refs[i], texts[i])
                if out.violations:
                    break
            out.nontrivial = between and len(flags) >= 2
            return out
        # sched
        jobs = [(lambda t=t, o=o: loader.make_parser(t, **o["ctor"]).run(**o["run"])) for t, o in zip(texts, objs)]
        results, trace, switches = run_schedule(jobs, case["schedule"], case.get("exact", False))
        out.parses += len(jobs)
        out.nontrivial = len(flags) >= 2 and max(switches) >= 2
        out.label("switches=%s" % min(max(switches), 6))
        if any(g is not None and g[0] == "exc" and g[1] == "Blocked" for g in results):
            _S["poisoned"] = True  # the lock / resource stays taken in this process: later schedules would only repeat the finding
        for i, (got, ref) in enumerate(zip(results, refs)):
            if got is None:
                out.fail("thread-did-not-finish", "object %d" % i)
                continue
            self.compare(out, "thread %d (flags %r) under schedule %r (trace %r)" % (i, objs[i]["ctor"], case["schedule"], trace[:40]), got, ref, texts[i])
        return out

    # ---- thorough supplement: free-running threads
    def finish(self, tier, merged):
        if tier != "thorough":
            return []
        objs = [FIXED_A, FIXED_B, dict(FIXED_A, ctor={"normalize_names": False}), dict(FIXED_B, ctor={"silent": True})]
        texts = [c14.source_text(o["src"]) for o in objs]
        refs = [isolated.reference(t, o["ctor"], o["run"]) for t, o in zip(texts, objs)]
        bad = []

        def worker(i):
            for _ in range(200):
                try:
                    got = ("ok", loader.make_parser(texts[i], **objs[i]["ctor"]).run(**objs[i]["run"]))
                except Exception as e:
                    got = ("exc", type(e).__name__, str(e)[:600])
                if got[:3] != tuple(refs[i][:3]) and got[:2] != tuple(refs[i][:2]):
                    bad.append((i, got))
                    return

        ths = [threading.Thread(target=worker, args=(i % 4,)) for i in range(8)]
        for t in ths:
            t.start()
        for t in ths:
            t.join()
        self._extra = {"free_running_threads": 8, "free_running_iterations": 200, "free_running_mismatches": len(bad)}
        if bad:
            i, got = bad[0]
            return [("free-running-threads", "object %d under 8 free-running threads returned %r" % (i, got), {"kind": "ops", "objs": objs, "order": [0, 1, 0, 1]})]
        return []

    def extra_coverage(self, tier):
        return getattr(self, "_extra", {})


_LOG_CHILD = r"""
import json, sys
from simple_ddl_parser import DDLParser
spec = json.load(open(sys.argv[1]))
parsers, out = {}, []
for i in spec["order"]:
    o = spec["objs"][i]
    if i not in parsers:
        parsers[i] = DDLParser(o["text"], **o["ctor"])
        continue
    try:
        out.append([i, "ok", parsers[i].run(**o["run"])])
    except Exception as e:
        out.append([i, "exc", type(e).__name__ + ": " + str(e)[:300]])
sys.stdout.write("\n" + json.dumps(out) + "\n")
"""

PROP = C15()
