"""C14 - run() is deterministic, repeatable and free of side effects.

Oracle: history invariant. A case is a call history over 1..3 parser objects: run(args) on an existing object, or
constructing a fresh object of the same text and running it. After every step
  * the returned value must equal the *isolated reference* of (ddl, constructor flags, run arguments): the value a process
    returns in which exactly one parser object ever existed (sdpv.isolated), exceptions included (same type and message);
  * every value returned earlier must still equal the deep copy taken when it was returned;
  * the working directory listing is unchanged and no dump directory appeared.
A second part re-evaluates a batch of (ddl, arguments) pairs in fresh interpreters under different PYTHONHASHSEED values
and compares the canonical JSON of the results.
"""
import copy
import json
import os
import subprocess
import sys

from hypothesis import strategies as st

from .. import gen, isolated, loader, universe
from ..engine import Outcome, Prop
from . import c04, c08, c13

VERIF = os.path.dirname(os.path.dirname(os.path.dirname(os.path.abspath(__file__))))


@st.composite
def run_args(draw):
    kw = {"output_mode": draw(st.sampled_from(universe.MODES + ["sql", "sql", "hql"]))}
    if draw(st.booleans()):
        kw["group_by_type"] = draw(st.booleans())
    if draw(st.integers(0, 3)) == 0:
        kw["json_dump"] = draw(st.booleans())
    if draw(st.integers(0, 7)) == 0:
        # a dump directory is named but no dump is requested: nothing may be written
        kw["dump"] = False
        kw["dump_path"] = draw(st.sampled_from(["dump_dir_x", "schemas"]))
    return kw


# keyword-shaped identifiers: the lexer decides per position whether such a word is a keyword or a name, using state kept
# on the lexer object and tables shared by all parser objects; no model is needed here, the isolated reference is the oracle
KW_EXTRA = ["create table {k}_copy (like {k});", "create table t_copy like {k};", "create table t_copy (like s.{k} including all);",
            "create table t (id int comment 'a {k}' default 1 not null, {k} int references o ({k}) on delete cascade, primary key (id));"]


@st.composite
def kw_source(draw):
    from . import c06

    tpls = sorted(c06.SWEEP) + list(range(len(KW_EXTRA)))
    stmts = []
    for _ in range(draw(st.integers(1, 3))):
        t = draw(st.sampled_from(tpls)) if draw(st.booleans()) else draw(st.integers(0, len(KW_EXTRA) - 1))
        stmts.append([t, c06.kw_form(draw(st.integers(0, 2)), draw(st.sampled_from(gen.GRAMMAR_KEYWORDS))), draw(st.sampled_from([0, 0, 0, 1, 2, 3]))])
    return {"t": "kw", "stmts": stmts}


def kw_text(src):
    from . import c06

    out = []
    for t, k, q in src["stmts"]:
        a, b = c06.QUOTES[q]
        tpl = KW_EXTRA[t] if isinstance(t, int) else c06.SWEEP[t][0]
        out.append(tpl.replace("{k}", a + k + b))
    return "\n".join(out) + "\n"


@st.composite
def ddl_source(draw):
    k = draw(st.integers(0, 12))
    if k == 12:
        return {"t": "raw", "text": draw(st.sampled_from(universe.SHORT_FORMS))[0]}  # dialect short forms
    if k == 11:
        return draw(kw_source())
    if k == 10:
        # Hive RegexSerDe scripts: the "input.regex" value travels through parser-object state
        return {"t": "corpus", "item": draw(st.sampled_from([i for i, it in enumerate(universe.corpus()) if "input.regex" in it["ddl"]]))}
    if k <= 5:
        blocks = draw(universe.script(1, 3, unsupported_p=draw(st.sampled_from([0, 0, 3]))))
        # comments of every style (reported ones, '#' / '--' whole lines, block comments); no model of them is needed here
        ops = [draw(st.one_of(c13.comment_op(i), c08.comment_op(i), c08.comment_op(i))) for i in range(draw(st.integers(0, 3)))]
        return {"t": "gen", "blocks": blocks, "layout": draw(gen.layout(max_len=30)), "ops": ops, "unterminated": draw(st.integers(0, 3)) == 0,
                "trailing_set": draw(st.integers(0, 4)) == 0}
    if k <= 7:
        return {"t": "corpus", "item": draw(st.integers(0, len(universe.corpus()) - 1))}
    # a table script and, as a separate text, ALTER / INDEX statements on its tables (which must raise there: the tables
    # are not defined in that text)
    c = draw(c04.case_strategy(4))
    c["undefined"] = None
    c.pop("layout", None)
    return {"t": "split", "c04": c, "part": draw(st.sampled_from(["tables", "ops", "ops"]))}


@st.composite
def case_strategy(draw, max_steps):
    nobj = draw(st.integers(1, 3))
    objs = []
    for i in range(nobj):
        src = draw(ddl_source())
        if src["t"] == "split" and i + 1 < nobj:
            # the companion text of the same split, so that both halves live in one history
            objs.append({"src": dict(src, part="tables"), "ctor": {}})
            src = dict(src, part="ops")
        ctor = {}
        if draw(st.integers(0, 2)) == 0:
            ctor["normalize_names"] = draw(st.booleans())
        if draw(st.integers(0, 3)) == 0:
            ctor["silent"] = draw(st.booleans())
        objs.append({"src": src, "ctor": ctor})
    steps = []
    for _ in range(draw(st.integers(2, max_steps))):
        steps.append({"o": draw(st.integers(0, len(objs) - 1)), "fresh": draw(st.integers(0, 4)) == 0, "run": draw(run_args())})
    return {"objs": objs, "steps": steps}


def source_text(src):
    if src["t"] == "corpus":
        return universe.corpus()[src["item"]]["ddl"]
    if src["t"] == "kw":
        return kw_text(src)
    if src["t"] == "split":
        c = src["c04"]
        stmts = c04.PROP.statements(c, None, with_undefined=False)
        nt = len(c["tables"])
        part = stmts[:nt] if src["part"] == "tables" else stmts[nt:]
        from ..render import render_script

        return render_script(part, None) if part else "CREATE INDEX ix_none ON t_none (id);\n"
    text = universe.render_blocks(src["blocks"], src["layout"])
    if src.get("ops"):
        nl = "\r\n" if "\r\n" in text else "\n"
        lines, _, _ = c08.apply_ops(text.split(nl), src["ops"])
        text = nl.join(lines)
    if src.get("trailing_set"):
        text = text.rstrip("\r\n") + "\nSET ANSI_NULLS ON"
    elif src.get("unterminated"):
        text = text.rstrip("\r\n")
        if text.endswith(";"):
            text = text[:-1]
    return text


def canon(x):
    return json.dumps(x, sort_keys=True, default=repr)


class C14(Prop):
    id = "C14"
    rule = ("case = call history of 2..N steps over 1..3 parser objects: run(output_mode, group_by_type, json_dump) on an existing "
            "object or on a fresh object of the same text; texts = generated scripts (every statement kind, comments, unsupported "
            "statements, unterminated last statement, trailing SET line), regression-corpus scripts, statements with keyword-shaped "
            "names in 41 positions (any grammar keyword, parsable or not), or the two halves of a table "
            "script and its ALTER/INDEX statements as separate texts; constructor flags normalize_names / silent drawn; invariant "
            "after every step: result == isolated single-parser reference (exceptions: same type and message), every earlier "
            "result still equals its deep copy, cwd listing unchanged; plus cross-interpreter batches under 4 PYTHONHASHSEED "
            "values; non-trivial = >= 2 run calls on one object with a different output mode in between, on a text with a "
            "comment or >= 2 statements; distinct = SHA-1 of the case")
    budgets = {"quick": 1200, "thorough": 25000}
    assumptions = [
        "reference = a forked process in which exactly one parser object is constructed and run once (sdpv/isolated.py)",
        "histories are generated as whole values (operation lists) so that Hypothesis shrinks them as one; the cross-interpreter part "
        "runs /venv/bin/python children with PYTHONHASHSEED in {0, 1, 4242, VERIF_SEED}",
    ]
    hash_batch = {"quick": 150, "thorough": 3000}

    def prepare(self, tier):
        # a private working directory: the history invariant watches it for files that nobody asked for
        cwd = os.path.join(loader.scratch_dir(), "cwd")
        os.makedirs(cwd, exist_ok=True)
        os.chdir(cwd)
        isolated.start()

    def strategy(self, tier):
        return case_strategy(6 if tier == "quick" else 12)

    _victims = None

    def victims(self):
        """corpus scripts that together use as many grammar keywords as possible (greedy cover, deterministic)"""
        if self._victims is None:
            import re

            kws = set(gen.GRAMMAR_KEYWORDS)
            have = [(i, set(re.findall(r"[A-Za-z_]+", it["ddl"].upper())) & kws) for i, it in enumerate(universe.corpus())
                    if not (universe.corpus_flags(it) & {"K7", "K8"})]
            chosen, covered = [], set()
            while len(chosen) < 16:
                i, ws = max(have, key=lambda x: (len(x[1] - covered), -x[0]))
                if not ws - covered:
                    break
                chosen.append(i)
                covered |= ws
            type(self)._victims = chosen
        return self._victims

    def enumerated(self, tier):
        # deterministic sweep: a statement that uses grammar keyword k as a *name* (41 positions incl. LIKE k) is parsed first, then
        # two keyword-rich corpus scripts on fresh objects and the first object again - whatever the first parse taught the lexer
        # must not reach the others
        from . import c06

        vs = self.victims()
        tpls = list(range(len(KW_EXTRA))) + ["col_mid", "table", "pk_list", "index_col", "ref_col", "table_after_dot"]
        n = 0
        for k in gen.GRAMMAR_KEYWORDS:
            for t in tpls:
                n += 1
                if tier == "quick" and n % 2:
                    continue
                src = {"t": "kw", "stmts": [[t, c06.kw_form(n % 3, k), 0]]}
                objs = [{"src": src, "ctor": {}}] + [{"src": {"t": "corpus", "item": vs[(n + j) % len(vs)]}, "ctor": {}} for j in range(2)]
                yield {"objs": objs, "steps": [{"o": 0, "fresh": False, "run": {"output_mode": "sql"}}, {"o": 1, "fresh": False, "run": {"output_mode": "hql"}},
                                               {"o": 2, "fresh": False, "run": {"output_mode": "sql"}}, {"o": 0, "fresh": False, "run": {"output_mode": "sql"}}]}

    def fixed_cases(self):
        tbl = {"k": "tables", "c": {"tables": [{"schema": None, "name": "t_0", "items": [{"col": {"name": "a", "type": "int", "size": None, "opts": []}}]}]}}
        src = {"t": "gen", "blocks": [tbl], "layout": None, "ops": [{"style": "t_dash", "at": 0, "text": ["zq0x0"], "close_own_line": False, "flush": False}],
               "unterminated": False, "trailing_set": False}
        two = [{"o": 0, "fresh": False, "run": {"output_mode": "sql"}}, {"o": 0, "fresh": False, "run": {"output_mode": "hql"}},
               {"o": 0, "fresh": False, "run": {"output_mode": "sql", "json_dump": True}}, {"o": 0, "fresh": False, "run": {"output_mode": "sql"}}]
        return [("rerun-with-comment", {"objs": [{"src": src, "ctor": {}}], "steps": two}),
                ("rerun-trailing-set", {"objs": [{"src": dict(src, trailing_set=True), "ctor": {}}], "steps": two})]

    def machine(self, tier, collector):
        """the same history property in Hypothesis' stateful mode: rules construct objects and call run(); the invariant compares
        every earlier result with its snapshot. A violating history is handed to the collector as an ordinary (replayable) case."""
        from hypothesis.stateful import RuleBasedStateMachine, initialize, invariant, precondition, rule

        prop = self

        class RunHistory(RuleBasedStateMachine):
            def __init__(self):
                super().__init__()
                self.case = {"objs": [], "steps": []}
                self.parsers = []
                self.returned = []
                self.broken = False
                self.cwd = sorted(os.listdir("."))

            def _add(self, src, norm, silent):
                ctor = {}
                if norm is not None:
                    ctor["normalize_names"] = norm
                if silent is not None:
                    ctor["silent"] = silent
                try:
                    self.parsers.append(loader.make_parser(source_text(src), **ctor))
                    self.case["objs"].append({"src": src, "ctor": ctor})
                except Exception:
                    self.broken = True

            @initialize(src=ddl_source(), norm=st.one_of(st.none(), st.booleans()), silent=st.one_of(st.none(), st.booleans()))
            def first_object(self, src, norm, silent):
                self._add(src, norm, silent)

            @precondition(lambda self: len(self.parsers) < 3)
            @rule(src=ddl_source(), norm=st.one_of(st.none(), st.booleans()), silent=st.one_of(st.none(), st.booleans()))
            def construct(self, src, norm, silent):
                if not self.broken:
                    self._add(src, norm, silent)

            @rule(i=st.integers(0, 2), args=run_args(), fresh=st.integers(0, 4))
            def run(self, i, args, fresh):
                if self.broken or not self.parsers:  # a violating history was already handed to the collector
                    return
                self.case["steps"].append({"o": i % len(self.parsers), "fresh": fresh == 0, "run": args})
                # evaluate the whole history so far on fresh objects: the verdict of a history is a pure function of the case
                out = prop.evaluate({"objs": self.case["objs"], "steps": self.case["steps"]})
                collector.record(dict(self.case, steps=list(self.case["steps"]), objs=list(self.case["objs"])), out)
                if out.violations:
                    self.broken = True

            @invariant()
            def no_files_created(self):
                assert sorted(os.listdir(".")) == self.cwd or self.broken

        return RunHistory

    def describe(self, case):
        return {"texts": [source_text(o["src"]) for o in case["objs"]], "ctor": [o["ctor"] for o in case["objs"]],
                "history": ["%s%d.run(%s)" % ("fresh " if s["fresh"] else "", s["o"], s["run"]) for s in case["steps"]]}

    def evaluate(self, case):
        out = Outcome()
        texts = [source_text(o["src"]) for o in case["objs"]]
        cwd_before = sorted(os.listdir("."))
        parsers = []
        for o, text in zip(case["objs"], texts):
            try:
                parsers.append(loader.make_parser(text, **o["ctor"]))
            except Exception as e:
                out.fail("constructor-raises", "%s: %s on %r" % (type(e).__name__, e, text))
                return out
        returned = []  # (step index, live value, deep copy at return time)
        runs_per_obj = {}
        for n, s in enumerate(case["steps"]):
            i = s["o"] % len(parsers)
            text, ctor = texts[i], case["objs"][i]["ctor"]
            ref = isolated.reference(text, ctor, s["run"])
            try:
                p = loader.make_parser(text, **ctor) if s["fresh"] else parsers[i]
                got = ("ok", p.run(**s["run"]))
            except Exception as e:
                got = ("exc", type(e).__name__, str(e)[:600], [c.__name__ for c in type(e).__mro__])
            out.parses += 1
            tag = "step %d: %sobject %d run(%r)" % (n, "fresh " if s["fresh"] else "", i, s["run"])
            if got[0] != ref[0]:
                out.fail("outcome-differs", "%s %s but the isolated reference %s; text=%r" % (
                    tag, "returns" if got[0] == "ok" else "raises %s: %s" % (got[1], got[2]), "returns" if ref[0] == "ok" else "raises %s: %s" % (ref[1], ref[2]), text))
                break
            if got[0] == "exc":
                if got[1] != ref[1] or got[2] != ref[2]:
                    out.fail("exception-differs", "%s raises %s: %s, reference raises %s: %s; text=%r" % (tag, got[1], got[2], ref[1], ref[2], text))
                    break
            elif got[1] != ref[1] or type(got[1]) is not type(ref[1]):
                out.fail("result-differs", "%s\n returned %r\n reference %r\n text=%r" % (tag, got[1], ref[1], text))
                break
            if got[0] == "ok":
                returned.append((n, got[1], copy.deepcopy(got[1])))
            for m, live, snap in returned[:-1] if got[0] == "ok" else returned:
                if live != snap:
                    out.fail("earlier-result-modified", "the value returned by step %d was changed by %s; was %r now %r" % (m, tag, snap, live))
                    break
            if not s["fresh"]:
                runs_per_obj.setdefault(i, []).append(s["run"].get("output_mode"))
        for i, modes in runs_per_obj.items():
            src = case["objs"][i]["src"]
            rich = src["t"] != "gen" or bool(src.get("ops")) or len(src["blocks"]) >= 2
            if len(modes) >= 2 and len(set(modes)) >= 2 and rich:
                out.nontrivial = True
        out.label("objects=%d" % len(parsers), "steps=%d" % len(case["steps"]))
        for o in case["objs"]:
            out.label("text:" + o["src"]["t"] + (":" + o["src"]["part"] if o["src"]["t"] == "split" else ""))
        if sorted(os.listdir(".")) != cwd_before:
            out.fail("files-created", "working directory changed: %r -> %r" % (cwd_before, sorted(os.listdir("."))))
        return out

    # ---- cross interpreter / hash seed part (parent, once)
    def finish(self, tier, merged):
        import hypothesis
        from hypothesis import HealthCheck, given, settings

        n = self.hash_batch[tier]
        seed = int(os.environ.get("VERIF_SEED", "1") or 1)
        batch = []

        @hypothesis.seed(seed + 77)
        @settings(max_examples=n, database=None, deadline=None, suppress_health_check=list(HealthCheck), phases=[hypothesis.Phase.generate])
        @given(ddl_source(), run_args(), st.booleans())
        def collect(src, kw, norm):
            batch.append({"ddl": source_text(src), "ctor": {"normalize_names": norm}, "run": kw})

        collect()
        for i, it in enumerate(universe.corpus()):
            batch.append({"ddl": it["ddl"], "ctor": {}, "run": {"output_mode": universe.MODES[i % len(universe.MODES)], "group_by_type": i % 2 == 0}})
        # tables with long column names and unnamed multi-column constraints (their synthetic names are derived from the columns)
        for i in range(40):
            cols = ["%s_%s_%03d_total" % (gen.REALISTIC_NAMES[(7 * i + j) % len(gen.REALISTIC_NAMES)], gen.REALISTIC_NAMES[(11 * i + 3 * j) % len(gen.REALISTIC_NAMES)], i + j) for j in range(4)]
            ddl = "CREATE TABLE long_names_%d (%s, UNIQUE (%s), PRIMARY KEY (%s));\n" % (i, ", ".join(c + " int" for c in cols), ", ".join(cols[:3 + i % 2]), ", ".join(cols[1:3]))
            batch.append({"ddl": ddl, "ctor": {"normalize_names": i % 2 == 0}, "run": {"output_mode": universe.MODES[i % len(universe.MODES)], "json_dump": i % 3 == 0}})
        path = os.path.join(loader.scratch_dir(), "c14_batch.json")
        with open(path, "w") as f:
            json.dump(batch, f)
        seeds = ["0", "1", "4242", str(seed % 4294967295)]
        procs = []
        for hs in seeds:
            env = dict(os.environ, PYTHONHASHSEED=hs, PYTHONPATH=loader.scratch_dir() + os.pathsep + VERIF, SDPV_CHILD="1")
            procs.append(subprocess.Popen([sys.executable, "-c", _CHILD, path], env=env, stdout=subprocess.PIPE, stderr=subprocess.PIPE, cwd=loader.scratch_dir()))
        outs = []
        for hs, p in zip(seeds, procs):
            so, se = p.communicate(timeout=1800)
            if p.returncode != 0:
                raise loader.HarnessError("hash-seed child %s failed: %s" % (hs, se.decode()[-800:]))
            outs.append(json.loads(so.decode()))
        viol = []
        differing = 0
        for k, item in enumerate(batch):
            vals = [o[k] for o in outs]
            if any(v != vals[0] for v in vals[1:]):
                differing += 1
                if len(viol) < 1:
                    viol.append(("hash-seed-dependent", "results differ between interpreters with PYTHONHASHSEED %r for %r" % (seeds, item),
                                 {"objs": [{"src": {"t": "raw", "text": item["ddl"]}, "ctor": item["ctor"]}], "steps": [{"o": 0, "fresh": False, "run": item["run"]}]}))
        self._extra = {"cross_interpreter_pairs": len(batch), "hash_seeds": seeds, "cross_interpreter_differences": differing}
        return viol

    def extra_coverage(self, tier):
        return getattr(self, "_extra", {})


_CHILD = r'''
import json, sys, logging
logging.getLogger().addHandler(logging.NullHandler()); logging.getLogger().setLevel(logging.WARNING)
import simple_ddl_parser
from simple_ddl_parser import DDLParser
batch = json.load(open(sys.argv[1]))
out = []
for it in batch:
    try:
        r = DDLParser(it["ddl"], **it["ctor"]).run(**it["run"])
        out.append(["ok", json.dumps(r, sort_keys=True, default=repr)])
    except Exception as e:
        out.append(["exc", type(e).__name__, str(e)[:300]])
sys.stdout.write(json.dumps(out))
'''


_orig_source_text = source_text


def source_text(src):  # noqa: F811 - also accepts the raw texts used in replay files of the cross-interpreter part
    if src.get("t") == "raw":
        return src["text"]
    return _orig_source_text(src)


PROP = C14()
