"""C16 - unsupported input is skipped silently or raises DDLParserError, as selected.

Oracle: metamorphic over generated scripts of supported statements with statements of the unsupported families
inserted anywhere, under silent=True / silent=False and drawn output modes; plus unknown output modes.
"""
from hypothesis import strategies as st

from .. import gen, loader, universe
from ..engine import Outcome, Prop

VALID_MODES = list(universe.MODES)  # frozen list of the 15 documented modes
BAD_MODES = ["SQL", "hive", "postgresql", "", "Mysql", "mssql ", "ansi", "tsql", "big_query", "default", "None", "sql;", "vertica", "db2", "spark", "bigquery\n"]
# truncated statements: a prefix of a supported statement (the parser runs out of input in the middle of a rule)
TRUNCATED = ["ALTER TABLE {t};", "ALTER TABLE {t} ADD;", "CREATE INDEX {v} ON;", "CREATE TABLE {t} ({a} int) WITH;", "DROP;", "CREATE TABLE {t} (;",
             "CREATE SEQUENCE;", "ALTER TABLE {t} ADD CONSTRAINT;", "CREATE UNIQUE INDEX;", "CREATE TYPE {t} AS;",
             "CREATE TABLE {t} ({a} int) PARTITIONED BY;", "ALTER TABLE {t} DROP COLUMN;", "CREATE TABLE {t} ({a} int REFERENCES);"]


@st.composite
def unsupported(draw):
    k = draw(st.integers(0, 9))
    if k < 2:
        tpl = draw(st.sampled_from(TRUNCATED))
        names = {x: draw(gen.plain_ident(min_len=2, max_len=6)) for x in "atv"}
        return {"family": "rejected", "text": tpl.format(**names)}
    return draw(universe.unsupported())


@st.composite
def case_strategy(draw, max_blocks):
    n = draw(st.integers(0, max_blocks))
    blocks = []
    for i in range(n):
        if draw(st.integers(0, 9)) < 4:
            blocks.append({"k": "raw", "c": draw(unsupported())})
        blocks.append(draw(universe.block()))
    if draw(st.integers(0, 9)) < 4 or not blocks:
        blocks.append({"k": "raw", "c": draw(unsupported())})
    return {"blocks": blocks, "layout": draw(gen.layout(max_len=40)), "mode": draw(st.sampled_from(VALID_MODES)),
            "bad_mode": draw(st.one_of(st.sampled_from(BAD_MODES), gen.plain_ident(min_len=3))), "group": draw(st.booleans())}


class C16(Prop):
    id = "C16"
    rule = ("case = generated script of 0..N supported blocks (every statement kind) with unsupported statements inserted at any "
            "gap: 40 parser-rejected templates (queries, DML, views, functions, triggers, roles, TRUNCATE, COMMENT ON, transaction "
            "and session commands), 13 truncated CREATE / ALTER / DROP statements, 8 line-skipped templates (GO, USE, INSERT, GRANT, "
            "DELETE); parsed with silent=True and silent=False in a drawn output mode, and with an unknown output mode (near-misses "
            "of valid names and random words); relations: silent never raises and equals the script without the insertions; a "
            "rejected statement raises DDLParserError (a SimpleDDLParserException) when not silent; no raise => equal results; "
            "supported-only scripts never raise; unknown mode => SimpleDDLParserException naming all 15 modes, whatever the script; "
            "non-trivial = >= 2 supported blocks and >= 1 rejected statement that is neither first nor last; distinct = SHA-1 of the case")
    budgets = {"quick": 3000, "thorough": 60000}
    assumptions = [
        "statements with characters outside the lexer alphabet or unbalanced quotes raise even when silent (known finding K11); the "
        "templates avoid them",
        "line-skipped families (GO, USE, INSERT, GRANT, DELETE) are not required to raise when not silent",
    ]

    def strategy(self, tier):
        return case_strategy(4 if tier == "quick" else 8)

    def fixed_cases(self):
        drop = {"k": "drop", "c": {"schema": None, "name": "tt"}}
        seq = {"k": "seq", "c": {"seqs": [{"schema": None, "name": "sq", "opts": [["start", 1]]}]}}
        raw = lambda t: {"k": "raw", "c": {"family": "rejected", "text": t}}
        base = {"layout": None, "mode": "hql", "bad_mode": "hive", "group": False}
        return [("only-unsupported", dict(base, blocks=[raw("SELECT 1;")])),
                ("no-table", dict(base, blocks=[seq, raw("ALTER TABLE a ADD;")], bad_mode="")),
                ("truncated-mid", dict(base, blocks=[drop, raw("CREATE INDEX i ON;"), seq, raw("DROP;"), drop], bad_mode="SQL")),
                ("empty-script", dict(base, blocks=[{"k": "raw", "c": {"family": "skipped", "text": "GO"}}], group=True))]

    def describe(self, case):
        return {"ddl": universe.render_blocks(case["blocks"], case["layout"]), "mode": case["mode"], "unknown_mode": case["bad_mode"]}

    def evaluate(self, case):
        out = Outcome()
        blocks = case["blocks"]
        ddl = universe.render_blocks(blocks, case["layout"])
        sup = [b for b in blocks if b["k"] != "raw"]
        clean = universe_render_clean(blocks, case["layout"])
        rejected = [i for i, b in enumerate(blocks) if b["k"] == "raw" and b["c"]["family"] == "rejected"]
        skipped = [i for i, b in enumerate(blocks) if b["k"] == "raw" and b["c"]["family"] == "skipped"]
        out.nontrivial = len(sup) >= 2 and any(0 < i < len(blocks) - 1 for i in rejected)
        out.label("supported=%d" % len(sup), "rejected=%d" % min(len(rejected), 3), "skipped=%d" % min(len(skipped), 3), "mode:" + case["mode"])
        kw = {"output_mode": case["mode"], "group_by_type": case["group"]}
        # (1) silent=True never raises and equals the script without the inserted statements
        rs = loader.try_parse(ddl, silent=True, **kw)
        rc = loader.try_parse(clean, silent=True, **kw)
        out.parses += 2
        if rs[0] != "ok":
            out.fail("silent-raises", "%s: %s with silent=True; %r" % (rs[1], rs[2], ddl))
        elif rc[0] != "ok":
            out.fail("supported-raises", "%s: %s on supported-only script (silent=True); %r" % (rc[1], rc[2], clean))
        elif rs[1] != rc[1]:
            out.fail("unsupported-yields-entity", "silent result differs from the script without the unsupported statements\nwith=%r\nresult=%r\nexpected=%r" % (ddl, rs[1], rc[1]))
        # (2)/(3) silent=False
        rl = loader.try_parse(ddl, silent=False, **kw)
        out.parses += 1
        if rejected:
            if rl[0] == "ok":
                out.fail("loud-does-not-raise", "silent=False returned normally although the script holds %r; %r" % (blocks[rejected[0]]["c"]["text"], ddl))
            elif "DDLParserError" not in rl[3] or "SimpleDDLParserException" not in rl[3]:
                out.fail("loud-wrong-exception", "silent=False raised %s (%r), not DDLParserError / SimpleDDLParserException; %r" % (rl[1], rl[3], ddl))
        else:
            if rl[0] != "ok":
                out.fail("loud-raises-on-supported", "%s: %s with silent=False on a script without rejected statements; %r" % (rl[1], rl[2], ddl))
            elif rs[0] == "ok" and rl[1] != rs[1]:
                out.fail("silent-loud-differ", "silent=False does not raise but returns another result; %r" % ddl)
        # (4) supported-only never raises when loud
        if sup:
            rcl = loader.try_parse(clean, silent=False, **kw)
            out.parses += 1
            if rcl[0] != "ok":
                out.fail("loud-raises-on-supported", "%s: %s with silent=False on supported-only script; %r" % (rcl[1], rcl[2], clean))
            elif rc[0] == "ok" and rcl[1] != rc[1]:
                out.fail("silent-loud-differ", "supported-only script: results differ between silent settings; %r" % clean)
        # (5) unknown output mode
        bad = case["bad_mode"]
        if bad not in VALID_MODES:
            for silent in (True, False):
                for text in (ddl, clean):
                    rb = loader.try_parse(text, silent=silent, output_mode=bad, group_by_type=case["group"])
                    out.parses += 1
                    if rb[0] == "ok":
                        out.fail("unknown-mode-accepted", "output_mode=%r accepted (silent=%s); %r" % (bad, silent, text))
                    elif "SimpleDDLParserException" not in rb[3]:
                        out.fail("unknown-mode-wrong-exception", "output_mode=%r raised %s, not SimpleDDLParserException; %r" % (bad, rb[1], text))
                    else:
                        missing = [m for m in VALID_MODES if m not in rb[2]]
                        if missing:
                            out.fail("unknown-mode-message", "output_mode=%r: message does not name %r: %r (silent=%s); %r" % (bad, missing, rb[2], silent, text))
        return out


def universe_render_clean(blocks, layout):
    """the same script without its unsupported statements, every remaining statement rendered exactly as before"""
    from ..render import render_parts

    stmts, keep = [], []
    for i, b in enumerate(blocks):
        ss = [b["c"]["text"]] if b["k"] == "raw" else universe.statements(b, i)
        stmts.extend(ss)
        keep.extend([b["k"] != "raw"] * len(ss))
    parts = render_parts(stmts, layout)
    return "".join(p for p, k in zip(parts, keep) if k)


PROP = C16()
