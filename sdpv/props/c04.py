"""C04 - ALTER TABLE / CREATE INDEX change exactly the table they name, as declared.

Oracle: model-based. An in-memory table model applies every generated operation; the parser's tables
are compared with the model after the full history and after a prefix; tables not named by any
operation must equal their parse without the history; a statement naming an undefined table must raise.
"""
import copy

from hypothesis import strategies as st

from .. import gen, loader
from ..engine import Outcome, Prop, compare
from ..render import COMMA, END, I, K, L, LP, N, RP, T, V, plist, render_script
MODES = ["sql", "mysql", "postgres", "hql", "mssql", "oracle", "redshift", "snowflake", "bigquery", "spark_sql", "databricks", "sqlite", "vertics", "ibm_db2", "athena"]

KEY_POOL = [(None, "t"), ("a", "t"), ("b", "t"), ("a", "u"), (None, "u"), ("S1", "Orders"), ("b", "Orders"), (None, "Orders"),
            ("dbo", "t"), ("public", "t"), ("public", "u")]  # incl. the schemas some databases use by default
BASE_COLS = [("id", "int", None), ("name", "varchar", [10]), ("Code", "int", None), ("amt", "decimal", [10, 2]), ("code_id", "text", None)]  # a name that contains two other column names
# keyword-shaped column names: legal in CREATE TABLE and in index column lists (C06); ALTER operands reject many keywords, so
# these columns are only ever named by CREATE INDEX statements
KW_COLS = [("type", "int", None), ("comment", "text", None), ("default", "int", None), ("tag", "int", None)]
SPELL = ["plain", "upper", "lower", "dq", "br", "bt", "dq_upper", "br_lower"]
OP_KINDS = ["add", "drop", "rename", "modify", "pk", "uq", "check", "default", "fk", "index"]


def spell(name, style):
    if name is None:
        return None
    base = name
    if style.endswith("upper"):
        base = name.upper()
    elif style.endswith("lower"):
        base = name.lower()
    if style.startswith("dq"):
        return '"%s"' % base
    if style.startswith("br"):
        return "[%s]" % base
    if style.startswith("bt"):
        return "`%s`" % base
    return base


@st.composite
def case_strategy(draw, max_ops):
    nk = draw(st.integers(1, 4))
    keys = list(draw(st.permutations(KEY_POOL)))[:nk]
    tables = []
    live = {}
    kwcols = {}
    for sch, tn in keys:
        ncol = draw(st.integers(2, 5))
        cols = [list(c) for c in BASE_COLS[:ncol]]
        kw = [list(c) for c in KW_COLS[:draw(st.sampled_from([0, 0, 1, 2]))]]
        # a three-part name (project / database . schema . table): ALTER statements may name the table with or without the first part
        proj = draw(st.sampled_from([None, None, None, "crm", "Prj"])) if sch else None
        tables.append({"schema": sch, "name": tn, "cols": cols + kw, "project": proj})
        live[(sch, tn)] = [c[0] for c in cols]
        kwcols[(sch, tn)] = [c[0] for c in kw]
    ops = []
    for j in range(draw(st.integers(0, max_ops))):
        ti = draw(st.integers(0, nk - 1))
        sch, tn = keys[ti]
        names = live[(sch, tn)]
        kind = draw(st.sampled_from(OP_KINDS))
        op = {"t": ti, "kind": kind, "sch_style": draw(st.sampled_from(SPELL)), "tbl_style": draw(st.sampled_from(SPELL)),
              "form": draw(st.integers(0, 2))}
        if sch and kind != "index":
            # 0: as the table was created, 1: schema.table only, 2: with a first part (also when the table was created without one)
            op["proj"] = draw(st.sampled_from([0, 0, 0, 1, 2]))
        if kind == "add":
            op["name"] = "x%d" % j
            op["default"] = draw(st.sampled_from([None, "0", "'q'", "42"]))
            op["size"] = draw(st.sampled_from([None, None, [12], [8, 3]]))
            names.append(op["name"])
        elif kind == "drop":
            if len(names) < 2:
                continue
            c = draw(st.sampled_from(names))
            op["col"], op["col_style"] = c, draw(st.sampled_from(SPELL))
            names.remove(c)
        elif kind == "rename":
            c = draw(st.sampled_from(names))
            op["col"], op["col_style"], op["to"] = c, draw(st.sampled_from(["plain", "upper", "lower"])), "r%d" % j
            names[names.index(c)] = op["to"]
        elif kind == "modify":
            op["col"] = draw(st.sampled_from(names))
            op["size"] = draw(st.integers(1, 400))
        elif kind in ("pk", "uq", "fk"):
            k = draw(st.integers(1, min(3, len(names))))
            op["cols"] = list(draw(st.permutations(names)))[:k]
            op["cname"] = draw(st.sampled_from([None, "%s%d" % (kind, j)]))
            if kind == "fk":
                op["rcols"] = ["o%d" % i for i in range(k)]
                op["rschema"] = draw(st.sampled_from([None, "rs"]))
                op["on_delete"] = draw(st.sampled_from([None, None, "CASCADE", "RESTRICT"]))
                op["on_update"] = draw(st.sampled_from([None, None, "CASCADE", "restrict"]))
                op["delete_first"] = draw(st.booleans())
        elif kind == "check":
            op["col"] = draw(st.sampled_from(names))
            op["cname"] = draw(st.sampled_from([None, "ck%d" % j]))
            op["k"] = j
        elif kind == "default":
            k = draw(st.integers(1, min(2, len(names))))
            op["cols"] = list(draw(st.permutations(names)))[:k]
            op["cname"] = draw(st.sampled_from([None, "df%d" % j]))
            op["value"] = draw(st.sampled_from(["0", "'z'", "7", "'a b'"])) if op["cname"] else draw(st.sampled_from(["'z'", "'a b'"]))
        elif kind == "index":
            pool = names + kwcols[(sch, tn)]
            k = draw(st.integers(1, min(3, len(pool))))
            cs = list(draw(st.permutations(pool)))[:k]
            # index names may repeat on *another* table (same-named tables in two schemas usually follow one naming convention)
            prior = [o["name"] for o in ops if o["kind"] == "index" and o["t"] != ti]
            op["name"] = draw(st.sampled_from(prior)) if prior and draw(st.integers(0, 2)) == 0 else "ix%d" % j
            op["unique"] = draw(st.booleans())
            op["clustered"] = (not op["unique"]) and draw(st.integers(0, 2)) == 0
            op["cols"] = [[c, draw(st.sampled_from([None, "ASC", "DESC"])), draw(st.sampled_from([None, None, "FIRST", "LAST"]))] for c in cs]
        ops.append(op)
    undefined = None
    if draw(st.integers(0, 3)) == 0:
        used = set((s and s.lower(), t.lower()) for s, t in keys)
        cands = [k for k in KEY_POOL + [("zz", "t"), (None, "nope")] if (k[0] and k[0].lower(), k[1].lower()) not in used]
        sch, tn = draw(st.sampled_from(cands))
        undefined = {"schema": sch, "name": tn, "kind": draw(st.sampled_from(["add", "uq", "index", "fk", "drop"])), "at": draw(st.integers(0, len(ops)))}
    # the output mode filters dialect fields only: routing and effects are the same in all of them
    mode = draw(st.sampled_from(["sql", "sql"] + MODES))
    return {"tables": tables, "ops": ops, "prefix": draw(st.integers(0, max(0, len(ops)))), "undefined": undefined,
            "layout": draw(gen.layout(max_len=50)), "mode": mode, "norm": draw(st.integers(0, 3)) == 0}


def target(case, op):
    t = case["tables"][op["t"]]
    s = spell(t["schema"], op["sch_style"])
    # CREATE INDEX ... ON accepts schema.table only (a three-part name there is rejected by the grammar)
    proj = {0: t.get("project"), 1: None, 2: t.get("project") or "crm"}[op.get("proj", 0)] if s and op["kind"] != "index" else None
    return I((proj + "." if proj else "") + (s + "." if s else "") + spell(t["name"], op["tbl_style"]))


def alt_head(case, op):
    toks = K("ALTER", "TABLE")
    if op["kind"] not in ("index",) and op["form"] == 1:
        toks += K("ONLY")
    elif op["form"] == 2:
        toks += K("IF", "EXISTS")
    return toks + [target(case, op)]


def op_tokens(case, op):
    kind = op["kind"]
    if kind == "index":
        toks = K("CREATE") + (K("UNIQUE") if op["unique"] else []) + (K("CLUSTERED") if op.get("clustered") else []) + K("INDEX") + [I(op["name"])] + K("ON") + [target(case, op)]
        items = []
        for c, order, nulls in op["cols"]:
            it = [I(c)]
            if order:
                it += K(order)
            if nulls:
                it += K("NULLS") + [V(nulls)]
            items.append(it)
        return toks + plist(items) + [END]
    toks = alt_head(case, op)
    con = (K("CONSTRAINT") + [I(op["cname"])]) if op.get("cname") else []
    if kind == "add":
        toks += K("ADD") + [I(op["name"]), T("numeric" if op.get("size") else "int")] + gen.size_tokens(op.get("size"))
        if op["default"]:
            toks += K("DEFAULT") + [L(op["default"]) if op["default"].startswith("'") else N(op["default"])]
    elif kind == "drop":
        toks += K("DROP", "COLUMN") + [I(spell(op["col"], op["col_style"]))]
    elif kind == "rename":
        toks += K("RENAME", "COLUMN") + [I(spell(op["col"], op["col_style"]))] + K("TO") + [I(op["to"])]
    elif kind == "modify":
        toks += {0: K("MODIFY", "COLUMN"), 1: K("MODIFY"), 2: K("ALTER", "COLUMN")}[op["form"]]
        toks += [I(op["col"]), T("varchar")] + plist([[N(op["size"])]])
    elif kind == "pk":
        toks += K("ADD") + con + K("PRIMARY", "KEY") + plist([[I(c)] for c in op["cols"]])
    elif kind == "uq":
        toks += K("ADD") + con + K("UNIQUE") + plist([[I(c)] for c in op["cols"]])
    elif kind == "check":
        toks += K("ADD") + con + K("CHECK") + [LP, I(op["col"]), (">", "O"), N(op["k"]), RP]
    elif kind == "default":
        toks += K("ADD") + con + K("DEFAULT") + [L(op["value"]) if op["value"].startswith("'") else N(op["value"])] + K("FOR")
        for n, c in enumerate(op["cols"]):
            if n:
                toks.append(COMMA)
            toks.append(I(c))
    elif kind == "fk":
        ref = {"schema": op["rschema"], "table": "rt", "column": None, "on_delete": op.get("on_delete"), "on_update": op.get("on_update"),
               "delete_first": op.get("delete_first", True)}
        toks += K("ADD") + con + K("FOREIGN", "KEY") + plist([[I(c)] for c in op["cols"]]) + gen.reference_tokens(ref, op["rcols"])
    toks.append(END)
    return toks


def undefined_tokens(u):
    name = I((u["schema"] + "." if u["schema"] else "") + u["name"])
    if u["kind"] == "index":
        return K("CREATE", "INDEX") + [I("ix_undef")] + K("ON") + [name] + plist([[I("id")]]) + [END]
    head = K("ALTER", "TABLE") + [name]
    if u["kind"] == "add":
        return head + K("ADD") + [I("zcol"), T("int"), END]
    if u["kind"] == "uq":
        return head + K("ADD", "UNIQUE") + plist([[I("id")]]) + [END]
    if u["kind"] == "drop":
        return head + K("DROP", "COLUMN") + [I("id"), END]
    ref = {"schema": None, "table": "rt", "column": None, "on_delete": None, "on_update": None}
    return head + K("ADD", "FOREIGN", "KEY") + plist([[I("id")]]) + gen.reference_tokens(ref, ["o0"]) + [END]


def table_tokens(t):
    tbl = {"schema": (t["project"] + "." + t["schema"]) if t.get("project") else t["schema"], "name": t["name"],
           "items": [{"col": {"name": c[0], "type": c[1], "size": c[2], "opts": []}} for c in t["cols"]]}
    return gen.create_table_tokens(tbl)


def new_model(t):
    return {"cols": [{"name": c[0], "type": c[1], "size": gen.expected_size(c[2]), "default": None, "unique": False} for c in t["cols"]],
            "pks": [], "uqs": [], "checks": [], "defaults": [], "acols": [], "index": [], "renamed": [], "touched": False}


def apply_op(models, op):
    m = models[op["t"]]
    m["touched"] = True
    k = op["kind"]
    if k == "add":
        d = op["default"]
        m["cols"].append({"name": op["name"], "type": "numeric" if op.get("size") else "int", "size": gen.expected_size(op.get("size")),
                          "default": (int(d) if d and d.isdigit() else d), "unique": False})
        m["acols"].append(("add", op["name"]))
    elif k == "drop":
        m["cols"] = [c for c in m["cols"] if c["name"] != op["col"]]
    elif k == "rename":
        for c in m["cols"]:
            if c["name"] == op["col"]:
                c["name"] = op["to"]
        m["renamed"].append((spell(op["col"], op["col_style"]), op["to"]))
    elif k == "modify":
        for i, c in enumerate(m["cols"]):
            if c["name"] == op["col"]:
                m["cols"][i] = {"name": op["col"], "type": "varchar", "size": op["size"], "default": None, "unique": False}
    elif k == "pk":
        m["pks"].append((op["cname"], list(op["cols"])))
    elif k == "uq":
        m["uqs"].append((op["cname"], list(op["cols"])))
        if len(op["cols"]) == 1:
            for c in m["cols"]:
                if c["name"] == op["cols"][0]:
                    c["unique"] = True
    elif k == "check":
        m["checks"].append((op["cname"], "%s>%d" % (op["col"], op["k"])))
    elif k == "default":
        for c in m["cols"]:
            if c["name"] in op["cols"]:
                c["default"] = op["value"]
        m["defaults"].append((op["cname"], op["value"], list(op["cols"])))
    elif k == "fk":
        for c, r in zip(op["cols"], op["rcols"]):
            m["acols"].append(("fk", c, op["cname"], op["rschema"], "rt", r, op.get("on_delete"), op.get("on_update")))
    elif k == "index":
        m["index"].append((op["name"], op["unique"], [c for c, _, _ in op["cols"]],
                           [(c, (o or "ASC"), (n or "LAST")) for c, o, n in op["cols"]]))


def compare_table(out, tag, e, m, ddl):
    got = [(c.get("name"), c.get("type"), c.get("size"), c.get("default"), c.get("unique")) for c in e["columns"]]
    exp = [(c["name"], c["type"], c["size"], c["default"], c["unique"]) for c in m["cols"]]
    if got != exp:
        out.fail("columns", "%s: expected %r got %r; %r" % (tag, exp, got, ddl))
    a = e["alter"]
    for key, mk in (("primary_keys", "pks"), ("uniques", "uqs")):
        g = [(x["constraint_name"], x["columns"]) for x in a.get(key, [])]
        if g != m[mk]:
            out.fail("alter-" + key, "%s: expected %r got %r; %r" % (tag, m[mk], g, ddl))
    g = [(x["constraint_name"], gen.ws_free(x["statement"])) for x in a.get("checks", [])]
    if g != m["checks"]:
        out.fail("alter-checks", "%s: expected %r got %r; %r" % (tag, m["checks"], g, ddl))
    g = [(x["constraint_name"], x["value"]) for x in a.get("defaults", [])]
    if g != [(n, v) for n, v, _ in m["defaults"]]:
        out.fail("alter-defaults", "%s: expected %r got %r; %r" % (tag, m["defaults"], g, ddl))
    g = []
    for c in a.get("columns", []):
        if c.get("references"):
            r = c["references"]
            g.append(("fk", c["name"], c["constraint_name"], r["schema"] if "schema" in r else r["dataset"], r["table"], r["column"], r.get("on_delete"), r.get("on_update")))
    # entries of plain ADD column statements share the column dict (so they follow later renames);
    # the property only fixes the recorded foreign keys
    if g != [x for x in m["acols"] if x[0] == "fk"]:
        out.fail("alter-columns", "%s: expected %r got %r; %r" % (tag, m["acols"], g, ddl))
    g = [(x["from"], x["to"]) for x in a.get("renamed_columns", [])]
    if g != m["renamed"]:
        out.fail("alter-renamed", "%s: expected %r got %r; %r" % (tag, m["renamed"], g, ddl))
    g = [(i["index_name"], i["unique"], i["columns"], [(d["name"], d["order"], d["nulls"]) for d in i["detailed_columns"]]) for i in e["index"]]
    if g != m["index"]:
        out.fail("index", "%s: expected %r got %r; %r" % (tag, m["index"], g, ddl))


class C04(Prop):
    id = "C04"
    rule = ("case = 1..4 CREATE TABLE statements whose (schema, name) keys may share the table name across schemas "
            "(incl. a schema-less twin) followed by a history of 0..8 (thorough 0..14) ALTER TABLE / CREATE INDEX "
            "statements, each naming its target through a re-spelled key (case change, \"..\", [..], `..`): ADD column, "
            "DROP/RENAME/MODIFY/ALTER COLUMN, ADD [CONSTRAINT] PRIMARY KEY/UNIQUE/CHECK/DEFAULT..FOR/FOREIGN KEY, "
            "[UNIQUE] INDEX with ASC/DESC/NULLS; optionally one statement naming an undefined table; parsed in a drawn output mode and, one case in four, with normalize_names=True "
            "(sql twice as likely as each of the 15); "
            "non-trivial = >= 2 tables sharing a name and >= 1 operation addressed through a re-spelled key; "
            "distinct = SHA-1 of the case")
    budgets = {"quick": 8000, "thorough": 150000}
    assumptions = [
        "ALTER ... ADD column NOT NULL and unnamed ADD DEFAULT <non-string> FOR are rejected by the grammar and not generated",
        "only the column defaults set by ADD DEFAULT ... FOR a, b are compared (alter.defaults[].columns keeps a ',' element)",
        "an undefined target must raise some exception (ValueError today); its type is not fixed by the property",
    ]

    def strategy(self, tier):
        return case_strategy(8 if tier == "quick" else 14)

    def statements(self, case, upto=None, with_undefined=True):
        stmts = [table_tokens(t) for t in case["tables"]]
        ops = case["ops"] if upto is None else case["ops"][:upto]
        u = case["undefined"] if with_undefined else None
        for i, op in enumerate(ops):
            if u and u["at"] == i:
                stmts.append(undefined_tokens(u))
            stmts.append(op_tokens(case, op))
        if u and u["at"] >= len(ops):
            stmts.append(undefined_tokens(u))
        return stmts

    def describe(self, case):
        return {"ddl": render_script(self.statements(case), case["layout"]), "undefined_target": bool(case["undefined"])}

    def run_and_compare(self, out, case, upto, tag):
        stmts = self.statements(case, upto, with_undefined=False)
        ddl = render_script(stmts, case["layout"])
        mode = case.get("mode", "sql")
        skey = "dataset" if mode == "bigquery" else "schema"
        tag = "%s (output_mode=%s)" % (tag, mode)
        # tables and columns are declared undelimited; only the references of the ALTER / INDEX statements are re-spelled, so
        # the routing is the same under normalize_names=True (names recorded from those statements lose their delimiters)
        norm = bool(case.get("norm"))
        if norm:
            tag += " normalize_names=True"
        r = loader.try_parse(ddl, output_mode=mode, normalize_names=norm)
        out.parses += 1
        if r[0] != "ok":
            out.fail("exception", "%s: %s: %s on %r" % (tag, r[1], r[2], ddl))
            return None
        res = r[1]
        with compare(out, "result"):
            if len(res) != len(case["tables"]) or not all("columns" in e for e in res):
                out.fail("entity-count", "%s: expected %d tables got %d entities; %r" % (tag, len(case["tables"]), len(res), ddl))
                return None
            models = [new_model(t) for t in case["tables"]]
            for op in (case["ops"] if upto is None else case["ops"][:upto]):
                apply_op(models, op)
            for t, e, m in zip(case["tables"], res, models):
                if e.get("table_name") != t["name"] or e.get(skey) != t["schema"]:
                    out.fail("table-identity", "%s: expected %r.%r got %r.%r" % (tag, t["schema"], t["name"], e.get(skey), e.get("table_name")))
                if not m["touched"]:
                    base = loader.parse(render_script([table_tokens(t)], None), output_mode=mode, normalize_names=norm)
                    out.parses += 1
                    if e != base[0]:
                        out.fail("untouched-table-changed", "%s: table %r.%r was not named by any statement but differs; %r" % (tag, t["schema"], t["name"], ddl))
                    continue
                compare_table(out, "%s table %s.%s" % (tag, t["schema"], t["name"]), e, m, ddl)
        return res

    def evaluate(self, case):
        out = Outcome()
        names = [t["name"].lower() for t in case["tables"]]
        shared = len(set(names)) < len(names)
        respelled = any(op["tbl_style"] != "plain" or (case["tables"][op["t"]]["schema"] and op["sch_style"] != "plain") for op in case["ops"])
        out.nontrivial = shared and respelled and len(case["ops"]) > 0
        out.label("tables=%d" % len(case["tables"]), "ops=%d" % len(case["ops"]), "shared_name=%s" % shared, "mode:" + case.get("mode", "sql"))
        if any(t.get("project") for t in case["tables"]) or any(op.get("proj") == 2 for op in case["ops"]):
            out.label("three-part-name")
        for op in case["ops"]:
            out.label("op:" + op["kind"], "spell:" + op["tbl_style"])
        self.run_and_compare(out, case, None, "full history")
        if 0 < case["prefix"] < len(case["ops"]):
            self.run_and_compare(out, case, case["prefix"], "prefix %d" % case["prefix"])
        if case["undefined"]:
            out.label("undefined:" + case["undefined"]["kind"])
            ddl = render_script(self.statements(case), case["layout"])
            r = loader.try_parse(ddl, output_mode=case.get("mode", "sql"))
            out.parses += 1
            if r[0] == "ok":
                out.fail("undefined-target-accepted", "statement naming undefined table %r.%r did not raise; %r" % (case["undefined"]["schema"], case["undefined"]["name"], ddl))
        return out


PROP = C04()
