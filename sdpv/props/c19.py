"""C19 - file, dump and command-line entry points agree with the in-memory API.

Oracle: differential. Generated DDL texts are written under generated file names / encodings / directories;
parse_from_file, dump=True and the sdp command (driven in-process for volume, through a real interpreter for a sample)
must return / write exactly what DDLParser(text, **settings).run(...) returns, create exactly the documented files and
nothing else.
"""
import ast
import contextlib
import io
import json
import os
import shutil
import subprocess
import sys
import tempfile

from hypothesis import strategies as st

from .. import gen, loader, universe
from ..engine import Outcome, Prop

ENCODINGS = ["utf-8", "utf-8", "utf-8-sig", "utf-16", "latin-1", "cp1252", "utf-32", "utf-16-be", "utf-32-le"]
EXTS = ["sql", "ddl", "hql", "bql"]
DECOY_EXTS = ["txt", "json", "md", "sqlx", "bak"]
DDL_EXTS = EXTS
SRC_DIRS = ["src.d", "src.d", "src.d", "release[2.1]", "ddl [final]", "a*b", "what?", "my dir", "{x,y}", "[a-z]", "~tmp", "v1.2", "-dash"]
# the last four carry characters that str.splitlines() treats as line boundaries but file reading does not
SNIPPETS = ["-- résumé of the table ü\n", "-- plain ascii comment\n", "", "", "-- naïve £ sign\n", "-- page break \x0c after it\n",
            "-- unicode line separator \u2028 inside\n", "-- next-line \x85 character\n", "-- vt \x0b and fs \x1c here\n",
            "CREATE TABLE snip_t (a int); -- a reported (trailing) comment\n"]
STEMS = ["a", "tbl", "my_table", "x1", "Data", "orders", "t-1", "q_2"]
# a stale output file that is *longer* than any result, so that an in-place overwrite without truncation leaves a tail behind
STALE = json.dumps({"stale": True, "padding": "x" * 20000})
TARGETS = ["missing", "nested", "existing", "stale", "relative"]


@st.composite
def file_name(draw, exts=EXTS, multi_dot=True):
    stem = draw(st.sampled_from(STEMS)) + str(draw(st.integers(0, 99)))
    form = draw(st.integers(0, 9))
    ext = draw(st.sampled_from(exts))
    if form == 0 and multi_dot:
        return "%s.v%d.%s" % (stem, draw(st.integers(1, 9)), ext)
    if form == 1 and multi_dot:
        return "%s.backup.copy.%s" % (stem, ext)
    return "%s.%s" % (stem, ext)


@st.composite
def api_case(draw):
    blocks = draw(universe.script(1, 3, unsupported_p=2))
    fname = draw(st.one_of(file_name(), st.sampled_from(["noext", "README", ".hidden.sql", "Makefile9"])))
    ps = {}
    if draw(st.booleans()):
        ps["normalize_names"] = draw(st.booleans())
    if draw(st.integers(0, 3)) == 0:
        ps["silent"] = True
    if draw(st.integers(0, 7)) == 0:
        ps["debug"] = True  # debug implies non-silent: the reference gets the very same settings
    kw = {}
    if draw(st.booleans()):
        kw["output_mode"] = draw(st.sampled_from(universe.MODES))
    if draw(st.integers(0, 2)) == 0:
        kw["group_by_type"] = draw(st.booleans())
    if draw(st.integers(0, 3)) == 0:
        kw["json_dump"] = draw(st.booleans())
    return {"kind": "api", "blocks": blocks, "layout": draw(gen.layout(max_len=30)), "snippet": draw(st.sampled_from(SNIPPETS)),
            "enc": draw(st.sampled_from(ENCODINGS)), "fname": fname, "subdirs": draw(st.sampled_from([[], [], ["in"], ["in.put", "v1.2"]])),
            "ps": ps if (ps or draw(st.booleans())) else None, "kw": kw, "dump": draw(st.booleans()), "target": draw(st.sampled_from(TARGETS))}


@st.composite
def cli_case(draw):
    dir_mode = draw(st.booleans())
    nfiles = draw(st.integers(1, 4)) if dir_mode else 1
    files = []
    used = set()
    for i in range(nfiles):
        fn = draw(file_name(multi_dot=draw(st.integers(0, 3)) == 0))
        while fn.split(".")[0] in used:
            fn = "z" + fn
        used.add(fn.split(".")[0])
        files.append({"name": fn, "blocks": draw(universe.script(1, 2, unsupported_p=3))})
    if dir_mode and draw(st.integers(0, 5)) == 0:
        # a DDL file whose name starts with a dot is a DDL file like any other
        files.append({"name": ".hidden." + draw(st.sampled_from(DDL_EXTS)), "blocks": draw(universe.script(1, 2))})
    decoys = []
    if dir_mode:
        for i in range(draw(st.integers(0, 2))):
            fn = draw(file_name(exts=DECOY_EXTS, multi_dot=False))
            while fn.split(".")[0] in used:
                fn = "y" + fn
            used.add(fn.split(".")[0])
            decoys.append(fn)
    return {"kind": "cli", "dir_mode": dir_mode, "files": files, "decoys": decoys, "target": draw(st.sampled_from(["default", "missing", "nested", "existing", "stale"])),
            "mode": draw(st.one_of(st.none(), st.sampled_from(universe.MODES))), "verbose": draw(st.booleans()), "no_dump": draw(st.integers(0, 2)) == 0,
            "long_opts": draw(st.booleans()), "subprocess": False,
            # the input directory / the directory of the input file is a name like any other (blanks, dots, brackets, wildcard characters)
            "srcdir": draw(st.sampled_from(SRC_DIRS)),
            # single-file mode through a symbolic link whose name differs from its target's: the input base name is the link's
            "symlink": (not dir_mode) and draw(st.integers(0, 4)) == 0}


def candidates(fname):
    base = os.path.basename(fname)
    return {base.split(".")[0] + "_schema.json", base.rsplit(".", 1)[0] + "_schema.json"}


def listing(root):
    out = []
    for d, _, fs in os.walk(root):
        for f in fs:
            out.append(os.path.relpath(os.path.join(d, f), root))
    return sorted(out)


def jsonable(x):
    return json.loads(json.dumps(x))


class C19(Prop):
    id = "C19"
    rule = ("case = (api) generated script (+ optional non-ASCII comment line) written with one of 8 encodings (utf-8, utf-8-sig, "
            "utf-16, utf-16-be, utf-32, utf-32-le, latin-1, cp1252) under a generated file name (plain, multi-dot, no extension, hidden) in 0..2 dotted "
            "sub-directories; parse_from_file(path, encoding, parser_settings, output_mode / group_by_type / json_dump [, dump=True, "
            "dump_path = missing | nested missing | existing | existing with a stale output file | relative]) vs the in-memory API; "
            "or (cli) the sdp command on one file or on a directory of 1..4 .sql/.ddl/.hql/.bql files plus decoys, with -t / "
            "--target, -o / --output-mode, -v, --no-dump, driven in-process with patched argv / cwd (and as a real subprocess for "
            "a sample); relations: returned value equal, exactly one '<base>_schema.json' per input under the target with equal JSON "
            "content, nothing else created, --no-dump writes nothing and prints the result; non-trivial = non-UTF-8 encoding, "
            "multi-dot name, missing target or directory mode, with >= 2 entities; distinct = SHA-1 of the case")
    budgets = {"quick": 1200, "thorough": 30000}
    assumptions = [
        "'<input base name>' is accepted as the file name up to its first or its last dot (they differ only for multi-dot names)",
        "directory mode is exercised with distinct base names (two inputs of one base name share an output file by design)",
        "stdout of the command is compared through ast.literal_eval of the pprint output; log lines are not compared",
    ]
    subprocess_samples = {"quick": 12, "thorough": 200}

    def strategy(self, tier):
        return st.one_of(api_case(), cli_case())

    def fixed_cases(self):
        tbl = {"k": "tables", "c": {"tables": [{"schema": None, "name": "t_0", "items": [{"col": {"name": "a", "type": "int", "size": None, "opts": []}}]}]}}
        seq = {"k": "seq", "c": {"seqs": [{"schema": None, "name": "sq", "opts": [["start", 1]]}]}}
        cli = {"kind": "cli", "dir_mode": True, "files": [{"name": "one.sql", "blocks": [tbl]}, {"name": "two.v2.hql", "blocks": [tbl, seq]}, {"name": "three.bql", "blocks": [seq]}],
               "decoys": ["notes.txt"], "target": "nested", "mode": "hql", "verbose": True, "no_dump": False, "long_opts": True, "subprocess": False}
        api = {"kind": "api", "blocks": [tbl, seq], "layout": None, "snippet": SNIPPETS[0], "enc": "utf-16", "fname": "my.table.v2.sql", "subdirs": ["in.put"],
               "ps": {"normalize_names": True}, "kw": {"output_mode": "bigquery", "group_by_type": True}, "dump": True, "target": "relative"}
        return [("cli-dir", cli), ("cli-dir-again", dict(cli, target="default", mode=None)), ("api-dump-relative", api), ("api-dump-relative-again", dict(api, fname="other.sql"))]

    def describe(self, case):
        if case["kind"] == "api":
            return {"kind": "api", "file": "/".join(case["subdirs"] + [case["fname"]]), "encoding": case["enc"], "parser_settings": case["ps"], "kwargs": case["kw"],
                    "dump": case["dump"], "target": case["target"], "text": case["snippet"] + universe.render_blocks(case["blocks"], case["layout"])}
        return {"kind": "cli", "argv": self.argv(case, "<dir>" if case["dir_mode"] else case["files"][0]["name"], "<target>"),
                "files": [f["name"] for f in case["files"]], "decoys": case["decoys"]}

    # ------------------------------------------------------------------ api
    def eval_api(self, case):
        out = Outcome()
        text = case["snippet"] + universe.render_blocks(case["blocks"], case["layout"])
        enc = case["enc"]
        try:
            data = text.encode(enc)
        except UnicodeEncodeError:
            text = universe.render_blocks(case["blocks"], case["layout"])
            data = text.encode(enc)
        root = tempfile.mkdtemp(prefix="c19_", dir=loader.scratch_dir())
        cwd = os.getcwd()
        try:
            src_dir = os.path.join(root, "src", *case["subdirs"])
            os.makedirs(src_dir)
            path = os.path.join(src_dir, case["fname"])
            with open(path, "wb") as f:
                f.write(data)
            # what a reader of that file gets
            with open(path, "r", encoding=enc) as f:
                decoded = f.read()
            ps = case["ps"]
            kw = dict(case["kw"])
            ref = loader.try_parse(decoded, **dict(ps or {}, **kw))
            out.parses += 1
            work = os.path.join(root, "work")
            os.makedirs(work)
            os.chdir(work)
            tkind = case["target"]
            target = {"missing": os.path.join(root, "out"), "nested": os.path.join(root, "o.1", "deep", "out"), "existing": os.path.join(root, "out"),
                      "stale": os.path.join(root, "out"), "relative": "rel_out"}[tkind]
            if tkind in ("existing", "stale"):
                os.makedirs(target)
            if tkind == "stale":
                for c in candidates(case["fname"]):
                    with open(os.path.join(target, c), "w") as f:
                        f.write(STALE)
            before = listing(root)
            import simple_ddl_parser

            call = dict(kw)
            if case["dump"]:
                call.update(dump=True, dump_path=target)
            ps_before = json.dumps(ps, sort_keys=True)
            try:
                if ps is None:
                    got = ("ok", simple_ddl_parser.parse_from_file(path, encoding=enc, **call))
                else:
                    got = ("ok", simple_ddl_parser.parse_from_file(path, encoding=enc, parser_settings=ps, **call))
            except Exception as e:
                got = ("exc", type(e).__name__, str(e)[:300])
            out.parses += 1
            if json.dumps(ps, sort_keys=True) != ps_before:
                out.fail("arguments-modified", "parser_settings changed from %s to %r" % (ps_before, ps))
            out.label("api", "enc:" + enc, "dump=%s" % case["dump"], "target:" + tkind)
            n_ent = len(ref[1]) if ref[0] == "ok" and isinstance(ref[1], (list, dict)) else 0
            out.nontrivial = (enc not in ("utf-8",) or case["fname"].count(".") != 1 or (case["dump"] and tkind in ("missing", "nested", "relative"))) and n_ent >= 2
            if got[0] != ref[0]:
                out.fail("api-outcome", "parse_from_file %s, DDLParser(text).run %s; %r %r" % (got[:3] if got[0] != "ok" else "returns", ref[:3] if ref[0] != "ok" else "returns", case["fname"], call))
                return out
            if got[0] == "exc":
                if got[1] != ref[1]:
                    out.fail("api-exception", "parse_from_file raises %s, the API %s" % (got[1], ref[1]))
                return out
            if got[1] != ref[1]:
                out.fail("api-result", "parse_from_file(%r, encoding=%r, parser_settings=%r, **%r) differs from DDLParser(text, **settings).run(**kw)\n file=%r\n api =%r\n text=%r" % (
                    case["fname"], enc, ps, call, got[1], ref[1], decoded))
                return out
            after = listing(root)
            new = [f for f in after if f not in before]
            tdir = os.path.relpath(os.path.join(work, target) if tkind == "relative" else target, root)
            if not case["dump"]:
                if new or after != before:
                    out.fail("files-created-without-dump", "new files %r" % new)
                return out
            expected = {os.path.join(tdir, c) for c in candidates(case["fname"])}
            changed = new if tkind != "stale" else [f for f in after if f in expected]
            written = [f for f in changed if f in expected]
            if tkind == "stale":
                # exactly one of the candidate names must have been rewritten
                written = []
                for f in expected:
                    p = os.path.join(root, f)
                    if os.path.exists(p) and open(p).read() != STALE:
                        written.append(f)
                stray = [f for f in new if f not in expected]
            else:
                stray = [f for f in new if f not in expected]
            if stray:
                out.fail("dump-stray-files", "files created outside '<base>_schema.json' under the target: %r (target %r)" % (stray, tdir))
            if len(written) != 1:
                out.fail("dump-file-missing", "expected exactly one of %r to be written, found %r; new files %r" % (sorted(expected), written, new))
                return out
            with open(os.path.join(root, written[0])) as f:
                try:
                    content = json.load(f)
                except ValueError as e:
                    out.fail("dump-not-json", "%s: %s" % (written[0], e))
                    return out
            want = got[1]
            if isinstance(want, str):  # json_dump=True: the returned value is the JSON text
                want = json.loads(want)
            if content != jsonable(want):
                out.fail("dump-content", "%s holds %r, the returned result is %r" % (written[0], content, want))
            return out
        finally:
            os.chdir(cwd)
            shutil.rmtree(root, ignore_errors=True)

    # ------------------------------------------------------------------ cli
    def argv(self, case, path, target):
        a = ["sdp", path]
        if case["target"] != "default":
            a += ["--target" if case["long_opts"] else "-t", target]
        if case["mode"]:
            a += (["--output-mode", case["mode"]] if case["long_opts"] else ["-o", case["mode"]])
        if case["verbose"]:
            a.append("-v")
        if case["no_dump"]:
            a.append("--no-dump")
        return a

    def eval_cli(self, case):
        out = Outcome()
        root = tempfile.mkdtemp(prefix="c19_", dir=loader.scratch_dir())
        cwd = os.getcwd()
        try:
            src = os.path.join(root, case.get("srcdir") or "src.d")
            os.makedirs(src)
            out.label("srcdir:" + ("plain" if src.endswith("src.d") else "special"))
            refs = {}
            for f in case["files"]:
                text = universe.render_blocks(f["blocks"], None)
                with open(os.path.join(src, f["name"]), "w", encoding="utf-8") as fh:
                    fh.write(text)
                kw = {"output_mode": case["mode"]} if case["mode"] else {}
                refs[f["name"]] = loader.try_parse(text, **kw)
                out.parses += 1
            for d in case["decoys"]:
                with open(os.path.join(src, d), "w") as fh:
                    fh.write("CREATE TABLE decoy (a int);\n")
            work = os.path.join(root, "work")
            os.makedirs(work)
            tkind = case["target"]
            target = {"default": os.path.join(work, "schemas"), "missing": os.path.join(root, "out"), "nested": os.path.join(root, "o.1", "deep", "out"),
                      "existing": os.path.join(root, "out"), "stale": os.path.join(root, "out")}[tkind]
            if tkind in ("existing", "stale"):
                os.makedirs(target)
            if tkind == "stale":
                for f in case["files"]:
                    with open(os.path.join(target, f["name"].split(".")[0] + "_schema.json"), "w") as fh:
                        fh.write(STALE)
            before = listing(root)
            path = src if case["dir_mode"] else os.path.join(src, case["files"][0]["name"])
            if case.get("symlink") and not case["dir_mode"]:
                link_name = "cur_" + case["files"][0]["name"]
                os.makedirs(os.path.join(root, "links"))
                os.symlink(path, os.path.join(root, "links", link_name))
                path = os.path.join(root, "links", link_name)
                refs[link_name] = refs[case["files"][0]["name"]]
                out.label("symlink")
            before = listing(root)
            argv = self.argv(case, path, target)
            out.label("cli", "dir_mode=%s" % case["dir_mode"], "target:" + tkind, "no_dump=%s" % case["no_dump"], "subprocess=%s" % case["subprocess"])
            out.nontrivial = (case["dir_mode"] or tkind in ("missing", "nested", "default") or any(f["name"].count(".") > 1 for f in case["files"])) and \
                sum(len(r[1]) for r in refs.values() if r[0] == "ok") >= 2
            if case["subprocess"]:
                env = dict(os.environ, PYTHONPATH=loader.scratch_dir())
                p = subprocess.run([sys.executable, "-c", "import sys; from simple_ddl_parser.cli import main; sys.argv = sys.argv[1:]; main()"] + argv,
                                   cwd=work, env=env, stdout=subprocess.PIPE, stderr=subprocess.PIPE, timeout=300)
                stdout, rc = p.stdout.decode(), p.returncode
                if rc != 0 and all(r[0] == "ok" for r in refs.values()):
                    out.fail("cli-exit-status", "exit status %d; stderr %r" % (rc, p.stderr.decode()[-500:]))
                    return out
            else:
                from simple_ddl_parser import cli as cli_mod

                os.chdir(work)
                old_argv = sys.argv
                buf = io.StringIO()
                try:
                    sys.argv = argv
                    with contextlib.redirect_stdout(buf):
                        try:
                            cli_mod.main()
                            rc = 0
                        except SystemExit as e:
                            rc = e.code or 0
                        except Exception as e:
                            rc = "%s: %s" % (type(e).__name__, e)
                finally:
                    sys.argv = old_argv
                    os.chdir(cwd)
                stdout = buf.getvalue()
                if rc != 0 and all(r[0] == "ok" for r in refs.values()):
                    out.fail("cli-raises", "sdp %r ended with %r although the API parses every file" % (argv[1:], rc))
                    return out
            out.parses += len(case["files"])
            if any(r[0] != "ok" for r in refs.values()):
                return out
            after = listing(root)
            new = [f for f in after if f not in before]
            tdir = os.path.relpath(target, root)
            names = [f["name"] for f in case["files"]]
            if not case["dir_mode"]:
                names = ["cur_" + names[0]] if case.get("symlink") else names[:1]
            if case["no_dump"]:
                if new:
                    out.fail("no-dump-writes", "--no-dump created %r" % new)
            else:
                for nm in names:
                    cands = {os.path.join(tdir, c) for c in candidates(nm)}
                    hit = [f for f in after if f in cands and (f in new or open(os.path.join(root, f)).read() != STALE)]
                    if len(hit) != 1:
                        out.fail("cli-dump-missing", "input %r: expected one of %r, found %r (new files %r); argv %r" % (nm, sorted(cands), hit, new, argv[1:]))
                        continue
                    try:
                        content = json.load(open(os.path.join(root, hit[0])))
                    except ValueError as e:
                        out.fail("cli-dump-not-json", "%s is not valid JSON (%s); argv %r" % (hit[0], e, argv[1:]))
                        continue
                    if content != jsonable(refs[nm][1]):
                        out.fail("cli-dump-content", "input %r with argv %r: %s holds %r, the API returns %r" % (nm, argv[1:], hit[0], content, refs[nm][1]))
                allowed = {os.path.join(tdir, c) for nm in names for c in candidates(nm)}
                stray = [f for f in new if f not in allowed]
                if stray:
                    out.fail("cli-stray-files", "unexpected files %r (decoys / other directories must stay untouched); argv %r" % (stray, argv[1:]))
            if case["verbose"] or case["no_dump"]:
                printed = []
                # one pprint block per processed file, in listing order; compare as a multiset of values
                try:
                    printed = parse_pprint_blocks(stdout)
                except (ValueError, SyntaxError) as e:
                    out.fail("cli-stdout-unparseable", "%s; stdout %r" % (e, stdout[:300]))
                    return out
                canon = lambda x: json.dumps(x, sort_keys=True, default=repr)
                want = sorted(canon(refs[nm][1]) for nm in names)
                if sorted(canon(x) for x in printed) != want:
                    out.fail("cli-stdout", "printed %r, the API returns %r; argv %r" % (printed, [refs[nm][1] for nm in names], argv[1:]))
            elif stdout.strip():
                out.fail("cli-stdout-unexpected", "output without -v / --no-dump: %r" % stdout[:200])
            return out
        finally:
            os.chdir(cwd)
            shutil.rmtree(root, ignore_errors=True)

    def evaluate(self, case):
        return self.eval_api(case) if case["kind"] == "api" else self.eval_cli(case)

    def finish(self, tier, merged):
        """a sample of CLI cases through a real interpreter"""
        import hypothesis
        from hypothesis import HealthCheck, given, settings

        n = self.subprocess_samples[tier]
        seed = int(os.environ.get("VERIF_SEED", "1") or 1)
        cases = []

        @hypothesis.seed(seed + 19)
        @settings(max_examples=n, database=None, deadline=None, suppress_health_check=list(HealthCheck), phases=[hypothesis.Phase.generate])
        @given(cli_case())
        def collect(c):
            cases.append(dict(c, subprocess=True))

        collect()
        viol = []
        for c in cases:
            o = self.eval_cli(c)
            for b, m in o.violations:
                if not viol:
                    viol.append(("subprocess:" + b, m, c))
        self._extra = {"cli_subprocess_cases": len(cases)}
        return viol

    def extra_coverage(self, tier):
        return getattr(self, "_extra", {})


def parse_pprint_blocks(text):
    """stdout of one or more pprint() calls -> list of values"""
    vals = []
    buf = ""
    for line in text.splitlines(True):
        if buf and line[:1] in "[{" and not buf.rstrip().endswith(","):
            try:
                vals.append(ast.literal_eval(buf))
                buf = ""
            except (ValueError, SyntaxError):
                pass
        buf += line
    if buf.strip():
        vals.append(ast.literal_eval(buf))
    return vals


PROP = C19()
