"""C01 - column definitions are reproduced exactly and in order; none lost or invented.

Oracle: reference model (the case *is* the schema; the parser is never its own oracle).
"""
from hypothesis import strategies as st

from .. import gen, loader
from ..engine import Outcome, Prop, compare
import re

from ..render import render_parts, render_script


@st.composite
def table(draw, idx, max_cols):
    # sizes are drawn so that large tables are regularly produced
    n = draw(st.one_of(st.integers(1, min(8, max_cols)), st.integers(1, max_cols)))
    names = draw(gen.distinct_names(n))
    if draw(st.integers(0, 5)) == 0:
        # Oracle / DB2 style names carrying '#' after their first character (emp#, part#no): an identifier character like any other
        names = [(nm + "#" if k == 0 else nm[:1] + "#" + nm[1:]) if k < 2 and nm[:1].isalpha() else nm
                 for nm, k in ((nm, draw(st.integers(0, 3))) for nm in names)]
    cols = []
    have_pk = False
    for nm in names:
        c = draw(gen.column(nm, with_pk=not have_pk))
        if any(o[0] == "PK" for o in c["opts"]):
            have_pk = True
        cols.append(c)
    sch = draw(st.one_of(st.none(), gen.plain_ident()))
    return {"schema": sch, "name": draw(gen.plain_ident()) + "_%d" % idx, "items": [{"col": c} for c in cols]}


@st.composite
def case_strategy(draw, max_tables, max_cols):
    nt = draw(st.integers(1, max_tables))
    tables = [draw(table(i, max_cols)) for i in range(nt)]
    # the library also accepts scripts without ';' terminators (a line starting with CREATE opens the next statement)
    return {"tables": tables, "layout": draw(gen.layout(max_len=60)), "noterm": draw(st.integers(0, 4)) == 0}


class C01(Prop):
    id = "C01"
    rule = ("case = script of 1..N CREATE TABLE statements x 1..M columns, each column = name, one-word type, optional "
            "(n)/(p,s), and a subset in random order of NULL|NOT NULL, DEFAULT v, PRIMARY KEY, UNIQUE, REFERENCES "
            "[s.]t (c) [ON DELETE a] [ON UPDATE a]; half canonical text, half drawn layout/keyword case; "
            "non-trivial = a table with >= 2 columns and a column carrying >= 2 options; distinct = SHA-1 of the case")
    budgets = {"quick": 6000, "thorough": 60000}
    assumptions = [
        "core fragment only: defaults are quoted strings (K1-K4-safe alphabet), unsigned integers, decimals, -n, NULL, "
        "TRUE/FALSE, words and f(); referential actions CASCADE/RESTRICT (two-word actions are known finding K9)",
        "identifiers are not keyword-shaped here (C06 covers those)",
    ]

    def strategy(self, tier):
        return case_strategy(4, 8) if tier == "quick" else case_strategy(8, 30)

    def fixed_cases(self):
        col = lambda n, t, s, *o: {"name": n, "type": t, "size": s, "opts": [list(x) for x in o]}
        ref = {"schema": "rs", "table": "o", "column": "id", "on_delete": "CASCADE", "on_update": "RESTRICT", "delete_first": False}
        t = {"schema": "s", "name": "t_0", "items": [
            {"col": col("a", "int", None, ["NOTNULL"], ["DEFAULT", "007", 7], ["PK"])},
            {"col": col("b", "varchar", [10], ["DEFAULT", "'a;b -- c #d'", "'a;b -- c #d'"], ["UNIQUE"], ["NULL"])},
            {"col": col("c", "decimal", [10, 2], ["REF", ref], ["NOTNULL"], ["DEFAULT", "12345678901234567890", 12345678901234567890])},
            {"col": col("d", "MyType", None, ["DEFAULT", "null", "NULL"])},
        ]}
        return [("mixed", {"tables": [t], "layout": None}),
                ("mixed_layout", {"tables": [t, dict(t, name="t_1", schema=None)], "layout": {"sep": [3, 6, 2, 0, 10, 4], "case": [1, 2, 5], "crlf": True, "tail": 2}})]

    def build(self, case, stats=None):
        stmts = [gen.create_table_tokens(t) for t in case["tables"]]
        if not case.get("noterm"):
            return render_script(stmts, case["layout"], stats)
        stmts = [[t for t in s if t[1] != "E"] if i < len(stmts) - 1 else s for i, s in enumerate(stmts)]
        parts = render_parts(stmts, case["layout"], stats)
        # known finding K23: without ';' the first keyword of a statement must not stand alone on its line
        parts = [re.sub(r"^(\w+)[ \t]*\r?\n\s*", r"\1 ", p) for p in parts]
        return "".join(parts)

    def describe(self, case):
        return {"ddl": self.build(case), "tables": len(case["tables"]), "columns": [len(t["items"]) for t in case["tables"]]}

    def evaluate(self, case):
        out = Outcome()
        stats = {}
        ddl = self.build(case, stats)
        if stats.get("K5K6_coerced"):
            out.label("K5K6_gap_coerced")
        out.label("tables=%d" % len(case["tables"]), "layout=%s" % ("drawn" if case["layout"] else "canonical"), "terminated=%s" % (not case.get("noterm")))
        if any("#" in it["col"]["name"] for t in case["tables"] for it in t["items"]):
            out.label("name-with-#")
        for t in case["tables"]:
            n = len(t["items"])
            out.label("cols=%s" % (n if n <= 8 else "9-20" if n <= 20 else "21+"))
            for pos, it in enumerate(t["items"]):
                kinds = [o[0] for o in it["col"]["opts"]]
                out.label("nopts=%d" % len(kinds))
                for a, b in zip(kinds, kinds[1:]):
                    out.label("order:%s>%s" % (a, b))
                if len(kinds) >= 2 and n >= 2:
                    out.nontrivial = True
        r = loader.try_parse(ddl)
        out.parses += 1
        if r[0] != "ok":
            out.fail("exception", "%s: %s on %r" % (r[1], r[2], ddl))
            return out
        res = r[1]
        with compare(out, "result"):
            if len(res) != len(case["tables"]) or not all(isinstance(e, dict) and "columns" in e for e in res):
                out.fail("table-count", "expected %d tables, got %d entities: %r" % (len(case["tables"]), len(res), ddl))
                return out
            for t, e in zip(case["tables"], res):
                exp = [gen.column_expect(it["col"]) for it in t["items"]]
                if e.get("table_name") != t["name"] or e.get("schema") != t["schema"]:
                    out.fail("table-name", "expected %r.%r got %r.%r" % (t["schema"], t["name"], e.get("schema"), e.get("table_name")))
                names = [c["name"] for c in e["columns"]]
                if names != [x["name"] for x in exp]:
                    out.fail("column-list", "declared %r reported %r in %r" % ([x["name"] for x in exp], names, ddl))
                    continue
                for x, got in zip(exp, e["columns"]):
                    for f in ("type", "size", "nullable", "default", "unique"):
                        if got[f] != x[f] or type(got[f]) is not type(x[f]):
                            out.fail("column-field:" + f, "column %r: expected %s=%r got %r; ddl=%r" % (x["name"], f, x[f], got[f], ddl))
                    if x["ref"] is not None:
                        if not gen.ref_matches(got["references"], x["ref"]):
                            out.fail("column-references", "column %r: expected %r got %r; ddl=%r" % (x["name"], x["ref"], got["references"], ddl))
                    elif got["references"] is not None:
                        out.fail("references-invented", "column %r got %r; ddl=%r" % (x["name"], got["references"], ddl))
                pk = [x["name"] for x in exp if x["pk"]]
                if e["primary_key"] != pk:
                    out.fail("primary-key", "expected %r got %r; ddl=%r" % (pk, e["primary_key"], ddl))
        return out


PROP = C01()
