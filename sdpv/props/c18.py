"""C18 - types, domains, schemas, databases, tablespaces yield one exact entity each.

Oracle: reference model per declaration kind; optionally a table uses the declared type as a column
type and must report the (possibly schema-qualified, possibly delimited) type name verbatim.
"""
from hypothesis import strategies as st

from .. import gen, loader
from ..engine import Outcome, Prop, compare
from ..render import COMMA, END, EQ, I, K, L, LP, N, RP, T, V, plist, render_script

KINDS = ["enum", "object", "table", "kv", "domain", "domain_enum", "schema", "database", "tablespace"]
SCHEMA_FORMS = ["plain", "ine", "auth", "ine_auth", "only_auth", "comment", "comment_eq", "ine_comment", "replace", "project"]
NAME_STYLES = ("plain", "plain", "dq", "dqsp", "dqdot", "br", "bt")


@st.composite
def case_strategy(draw, more=True):
    c = draw(one_declaration())
    # further declarations of any kind in the same script: every one must still yield its own exact entity
    c["more"] = [draw(one_declaration(layout=False)) for _ in range(draw(st.sampled_from([0, 0, 1, 2, 3])))] if more else []
    c["more_first"] = draw(st.booleans())
    return c


@st.composite
def one_declaration(draw, layout=True):
    kind = draw(st.sampled_from(KINDS))
    c = {"kind": kind, "layout": draw(gen.layout(max_len=40)) if layout else None, "use": False}
    name_styles = NAME_STYLES
    if kind == "schema":
        name_styles = ("plain", "plain", "dq", "dqsp", "br")  # K17: backticks are stripped in CREATE SCHEMA
    c["schema"] = draw(st.one_of(st.none(), gen.ident(styles=name_styles))) if kind in ("enum", "object", "table", "kv", "domain", "domain_enum") else None
    c["name"] = draw(gen.ident(styles=name_styles))
    if kind == "enum":
        c["values"] = draw(st.lists(gen.safe_literal(max_size=8), min_size=1, max_size=8))
        c["base"] = draw(st.sampled_from(["ENUM", "enum", "Enum"]))
        c["replace"] = draw(st.booleans())
        c["use"] = draw(st.booleans())
    elif kind == "object":
        n = draw(st.integers(1, 6))
        names = draw(gen.distinct_names(n))
        c["attrs"] = [[nm] + list(draw(gen.type_and_size(allow_random_word=False))) for nm in names]
        c["base"] = draw(st.sampled_from(["OBJECT", "object", "Object"]))
        c["replace"] = draw(st.booleans())
        c["use"] = draw(st.booleans())
    elif kind == "table":
        n = draw(st.integers(1, 6))
        if draw(st.integers(0, 2)) == 0:
            from . import c06  # keyword-shaped / delimited column names are legal in a TABLE type (not in an OBJECT type)

            names = draw(c06.distinct(n, "col"))
        else:
            names = draw(gen.distinct_names(n))
        c["cols"] = [[nm] + list(draw(gen.type_and_size(allow_random_word=False))) + [draw(st.sampled_from([None, None, "NULL", "NOT NULL", "NOT NULL", "PRIMARY KEY", "UNIQUE"]))] for nm in names]
    elif kind == "kv":
        n = draw(st.integers(1, 3))
        keys = draw(gen.distinct_names(n))
        c["kv"] = [[k, draw(st.one_of(gen.plain_ident(), st.integers(0, 999).map(str)))] for k in keys]
    elif kind == "domain_enum":
        c["values"] = draw(st.lists(gen.safe_literal(max_size=8), min_size=1, max_size=5))
        c["base"] = draw(st.sampled_from(["ENUM", "enum", "Enum"]))
    elif kind == "domain":
        t, size = draw(gen.type_and_size(allow_random_word=False))
        if not size:
            size = [draw(st.integers(1, 99))]
        if t.upper() == "ENUM":
            t = "varchar"
        c["type"], c["size"] = t, size
    elif kind == "schema":
        c["form"] = draw(st.sampled_from(SCHEMA_FORMS))
        c["user"] = draw(gen.ident(styles=("plain", "dq")))
        c["comment"] = draw(gen.safe_literal(max_size=10))
        c["project"] = draw(gen.plain_ident())
    elif kind == "database":
        c["comment"] = draw(st.one_of(st.none(), gen.safe_literal(max_size=10)))
    else:
        c["ts_type"] = draw(st.sampled_from([None, "BIGFILE", "SMALLFILE", "bigfile", "Smallfile"]))
        c["temporary"] = draw(st.booleans())
        c["props"] = draw(st.sampled_from([[], [["DATAFILE", "'f.dbf'"], ["SIZE", "10M"]], [["TEMPFILE", "'t.dbf'"], ["SIZE", "5M"], ["AUTOEXTEND", "ON"]],
                                           [["DATAFILE", "'a b.dbf'"]], [["SIZE", "100M"], ["LOGGING", "yes_v"]]]))
    return c


def qname(c):
    return (c["schema"] + "." if c.get("schema") else "") + c["name"]


def decl_tokens(c):
    k = c["kind"]
    if k in ("enum", "object", "table", "kv"):
        toks = K("CREATE") + (K("OR", "REPLACE") if c.get("replace") else []) + K("TYPE") + [I(qname(c))]
        if k == "enum":
            toks += K("AS") + [V(c["base"])] + plist([[L(v)] for v in c["values"]])
        elif k == "object":
            toks += K("AS") + [V(c["base"])] + plist([[I(a[0]), T(a[1])] + gen.size_tokens(a[2]) for a in c["attrs"]])
        elif k == "table":
            toks += K("AS", "TABLE") + plist([[I(a[0]), T(a[1])] + gen.size_tokens(a[2]) + (gen.kw(a[3]) if a[3] else []) for a in c["cols"]])
        else:
            toks += plist([[I(kk), EQ, V(v)] for kk, v in c["kv"]])
        return toks + [END]
    if k == "domain_enum":
        return K("CREATE", "DOMAIN") + [I(qname(c))] + K("AS") + [V(c["base"])] + plist([[L(v)] for v in c["values"]]) + [END]
    if k == "domain":
        return K("CREATE", "DOMAIN") + [I(qname(c))] + ([] if c.get("no_as") else K("AS")) + [T(c["type"])] + gen.size_tokens(c["size"]) + [END]
    if k == "schema":
        f = c["form"]
        n, u = I(c["name"]), I(c["user"])
        ine = K("IF", "NOT", "EXISTS")
        auth = [("AUTHORIZATION", "K")]
        body = {
            "plain": [n], "ine": ine + [n], "auth": [n] + auth + [u], "ine_auth": ine + [n] + auth + [u], "only_auth": auth + [u],
            "comment": [n] + K("COMMENT") + [L(c["comment"])], "comment_eq": [n] + K("COMMENT") + [EQ, L(c["comment"])],
            "ine_comment": ine + [n] + K("COMMENT") + [L(c["comment"])], "replace": [n],
            "project": [I(c["project"] + "." + c["name"])],
        }[f]
        head = K("CREATE") + (K("OR", "REPLACE") if f == "replace" else []) + K("SCHEMA")
        return head + body + [END]
    if k == "database":
        return K("CREATE", "DATABASE") + [I(c["name"])] + (K("COMMENT") + [L(c["comment"])] if c["comment"] else []) + [END]
    toks = K("CREATE")
    if c["ts_type"]:
        toks.append(V(c["ts_type"]))
    if c["temporary"]:
        toks += K("TEMPORARY")
    toks += K("TABLESPACE") + [I(c["name"])]
    for kk, v in c["props"]:
        toks += [V(kk), L(v) if v.startswith("'") else V(v)]
    return toks + [END]


def using_table_tokens(c):
    tbl = {"schema": None, "name": "tt_user", "items": [
        {"col": {"name": "c1", "type": "int", "size": None, "opts": []}},
        {"col": {"name": "c2", "type": qname(c), "size": None, "opts": [["NOTNULL"]]}},
        {"col": {"name": "c3", "type": "int", "size": None, "opts": []}}]}
    return gen.create_table_tokens(tbl)


def low_keys(d):
    return {str(k).lower(): v for k, v in d.items()}


class C18(Prop):
    id = "C18"
    rule = ("case = one declaration of kind CREATE [OR REPLACE] TYPE AS ENUM(1..8 literals) | AS OBJECT(1..6 attrs) | "
            "AS TABLE(1..6 cols) | (k = v, ..), CREATE DOMAIN AS type(size), CREATE SCHEMA (10 forms: IF NOT EXISTS, "
            "AUTHORIZATION, COMMENT [=], OR REPLACE, project.name), CREATE DATABASE [COMMENT], CREATE [BIGFILE|SMALLFILE] "
            "[TEMPORARY] TABLESPACE [props]; names plain / \"..\" / [..] / `..`; drawn layout and keyword case; half of "
            "the enum/object types are used by a following table; non-trivial = declaration with >= 2 optional parts "
            "or a referencing table; distinct = SHA-1 of the case")
    budgets = {"quick": 10000, "thorough": 120000}
    assumptions = [
        "CREATE DOMAIN is generated with AS and a parenthesised size (form without AS is known finding K13)",
        "backtick-delimited names are not generated in CREATE SCHEMA (known finding K17)",
        "AUTHORIZATION key is compared case-insensitively",
    ]

    def strategy(self, tier):
        return case_strategy()

    def sequence(self, c):
        """declarations of the script in order: [(declaration, is the main one)]"""
        more = [(dict(m, use=False), False) for m in c.get("more", [])]
        return (more + [(c, True)]) if c.get("more_first") else ([(c, True)] + more)

    def statements(self, c):
        st_ = []
        for d, main in self.sequence(c):
            st_.append(decl_tokens(d))
            if main and d.get("use"):
                st_.append(using_table_tokens(d))
        return st_

    def describe(self, c):
        return {"ddl": render_script(self.statements(c), c["layout"]), "kinds": [d["kind"] for d, _ in self.sequence(c)]}

    def evaluate(self, c):
        out = Outcome()
        k = c["kind"]
        ddl = render_script(self.statements(c), c["layout"])
        out.label("kind:" + k, "use=%s" % c["use"], "declarations=%d" % (1 + len(c.get("more", []))))
        optional = 0
        if k == "schema":
            out.label("schema_form:" + c["form"])
            optional = {"plain": 0, "ine": 1, "auth": 1, "comment": 1, "comment_eq": 1, "replace": 1, "only_auth": 1, "project": 1}.get(c["form"], 2)
        elif k == "tablespace":
            optional = bool(c["ts_type"]) + bool(c["temporary"]) + bool(c["props"])
        elif k in ("enum", "object", "domain_enum"):
            optional = bool(c["schema"]) + bool(c.get("replace")) + (len(c.get("values", c.get("attrs", []))) > 1)
        else:
            optional = bool(c.get("schema")) + bool(c.get("comment")) + 1
        out.nontrivial = optional >= 2 or c["use"] or bool(c.get("more"))
        r = loader.try_parse(ddl)
        out.parses += 1
        if r[0] != "ok":
            out.fail("exception", "%s: %s on %r" % (r[1], r[2], ddl))
            return out
        res = r[1]
        seq = self.sequence(c)
        want = len(seq) + (1 if c["use"] else 0)
        with compare(out, "result"):
            if len(res) != want:
                out.fail("entity-count", "expected %d entities got %r; %r" % (want, res, ddl))
                return out
            i = 0
            for d, main in seq:
                self.check_entity(out, d, res[i], ddl)
                i += 1
                if main and d.get("use"):
                    t = res[i]
                    i += 1
                    names = [x["name"] for x in t["columns"]]
                    if names != ["c1", "c2", "c3"]:
                        out.fail("using-table", "columns %r; %r" % (names, ddl))
                    elif t["columns"][1]["type"] != qname(d) or t["columns"][1]["nullable"] is not False:
                        out.fail("using-table", "type name not verbatim: expected %r got %r (nullable %r); %r" % (qname(d), t["columns"][1]["type"], t["columns"][1]["nullable"], ddl))
        return out

    def check_entity(self, out, c, e, ddl):
        k = c["kind"]
        if True:
            low = low_keys(e)

            def expect(key, val):
                if low.get(key, "<absent>") != val:
                    out.fail("field:" + k, "%s: expected %r got %r; entity %r; %r" % (key, val, low.get(key, "<absent>"), e, ddl))

            if k in ("enum", "object", "table", "kv"):
                expect("schema", c["schema"])
                expect("type_name", c["name"])
                props = e.get("properties") or {}
                if k == "enum":
                    expect("base_type", c["base"])
                    if props.get("values") != c["values"]:
                        out.fail("enum-values", "expected %r got %r; %r" % (c["values"], props.get("values"), ddl))
                elif k == "object":
                    expect("base_type", c["base"])
                    got = [(a.get("name"), a.get("type"), a.get("size")) for a in props.get("attributes", [])]
                    exp = [(a[0], a[1], gen.expected_size(a[2])) for a in c["attrs"]]
                    if got != exp:
                        out.fail("object-attributes", "expected %r got %r; %r" % (exp, got, ddl))
                elif k == "table":
                    got = [(a.get("name"), a.get("type"), a.get("size"), a.get("nullable"), a.get("unique"), bool(a.get("primary_key"))) for a in props.get("columns", [])]
                    exp = [(a[0], a[1], gen.expected_size(a[2]), a[3] not in ("NOT NULL", "PRIMARY KEY"), a[3] == "UNIQUE", a[3] == "PRIMARY KEY") for a in c["cols"]]
                    if got != exp:
                        out.fail("table-type-columns", "expected %r got %r; %r" % (exp, got, ddl))
                else:
                    if props != {kk: v for kk, v in c["kv"]}:
                        out.fail("type-properties", "expected %r got %r; %r" % (dict(c["kv"]), props, ddl))
            elif k == "domain":
                expect("schema", c["schema"])
                expect("domain_name", c["name"])
                expect("base_type", c["type"])
                if not c.get("no_as"):
                    expect("properties", {})
            elif k == "domain_enum":
                expect("schema", c["schema"])
                expect("domain_name", c["name"])
                expect("base_type", c["base"])
                expect("properties", {"values": c["values"]})
            elif k == "schema":
                f = c["form"]
                expect("schema_name", c["user"] if f == "only_auth" else c["name"])
                if "auth" in f:
                    expect("authorization", c["user"])
                elif "authorization" in low:
                    out.fail("field:schema", "authorization invented: %r; %r" % (e, ddl))
                if "comment" in f:
                    expect("comment", c["comment"])
                if "ine" in f:
                    expect("if_not_exists", True)
                if f == "project":
                    expect("project", c["project"])
                allowed = {"schema_name", "authorization", "comment", "if_not_exists", "project", "properties"}
                extra = set(low) - allowed
                if extra:
                    out.fail("schema-extra-keys", "unexpected keys %r in %r; %r" % (sorted(extra), e, ddl))
            elif k == "database":
                expect("database_name", c["name"])
                if c["comment"]:
                    expect("comment", c["comment"])
            else:
                expect("tablespace_name", c["name"])
                expect("type", c["ts_type"])
                expect("temporary", c["temporary"])
                expect("properties", ({kk: v for kk, v in c["props"]} or None))
            kind_key = {"enum": "type_name", "object": "type_name", "table": "type_name", "kv": "type_name", "domain": "domain_name", "domain_enum": "domain_name",
                        "schema": "schema_name", "database": "database_name", "tablespace": "tablespace_name"}[k]
            others = {"type_name", "domain_name", "schema_name", "database_name", "tablespace_name", "table_name", "sequence_name"} - {kind_key}
            if others & set(e):
                out.fail("entity-kind", "entity of kind %s carries keys of another kind: %r; %r" % (k, sorted(others & set(e)), ddl))


PROP = C18()
