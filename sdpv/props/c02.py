"""C02 - keys, uniqueness, checks and foreign keys land on the right columns.

Oracle: reference model. One table with inline PRIMARY KEY / UNIQUE / CHECK / REFERENCES options and
table-level PRIMARY KEY / UNIQUE / CHECK / FOREIGN KEY items (named or not) inserted at any position
among the columns; the model predicts primary_key, per-column unique / nullable / references / check,
the checks list and the named constraints.
"""
from hypothesis import strategies as st

from .. import gen, loader
from ..engine import Outcome, Prop, compare
from ..render import COMMA, I, K, LP, N, RP, V, plist, render_script

OPS = [">", "<", ">=", "<=", "<>", "!=", "="]


@st.composite
def check_expr(draw, names, own=None):
    """-> list of (text, role) operand tokens:  col op k [AND col op k]"""
    n = draw(st.integers(1, 2))
    toks = []
    for i in range(n):
        if i:
            toks.append((draw(st.sampled_from(["AND", "and", "OR", "or"])), "V"))
        col = own if (own and i == 0) else draw(st.sampled_from(names))
        toks += [(col, "I"), (draw(st.sampled_from(OPS)), "O"), (str(draw(st.integers(0, 999))), "N")]
    return [list(t) for t in toks]


def expr_text(toks):
    return " ".join(t[0] for t in toks)


@st.composite
def case_strategy(draw, styles):
    n = draw(st.integers(2, 7))
    names = draw(gen.distinct_names(n, styles=styles))
    if draw(st.integers(0, 4)) == 0:
        # two columns whose names differ only by letter case and quoting (id and "ID" are different columns in PostgreSQL / Oracle)
        i, j = draw(st.integers(0, n - 1)), draw(st.integers(0, n - 1))
        base = names[i]
        if i != j and base[:1].isalpha() and base.isidentifier():
            twin = '"%s"' % (base.upper() if base.upper() != base else base.lower())
            if twin not in names and twin.strip('"') != base:
                names = list(names)
                names[j] = twin
    cols = []
    for nm in names:
        t, size = draw(gen.type_and_size(allow_random_word=False))
        opts = []
        if draw(st.integers(0, 9)) < 3:
            opts.append(["NOTNULL"])
        if draw(st.integers(0, 9)) < 2:
            opts.append(["UNIQUE"])
        if draw(st.integers(0, 9)) < 2:
            opts.append(["REF", draw(gen.reference(styles=styles)), draw(st.one_of(st.none(), st.none(), gen.plain_ident(min_len=2)))])
        if draw(st.integers(0, 9)) < 2:
            cn = draw(st.one_of(st.none(), gen.plain_ident(min_len=2)))
            if cn and opts and opts[-1][0] == "REF" and opts[-1][2]:
                opts[-1][2] = None  # one constraint name per column
            opts.append(["CHECK", cn, draw(check_expr(names, own=nm))])
        if len(opts) > 1:
            opts = [list(o) for o in draw(st.permutations(opts))]
        cols.append({"name": nm, "type": t, "size": size, "opts": opts})
    titems = []
    cnames = draw(gen.distinct_names(8, avoid=names))
    pk_kind = draw(st.sampled_from(["none", "inline", "table", "named"]))
    if pk_kind == "inline":
        c = cols[draw(st.integers(0, n - 1))]
        at = draw(st.integers(0, len(c["opts"])))
        c["opts"].insert(at, ["PK"])
    elif pk_kind in ("table", "named"):
        k = draw(st.integers(1, min(3, n)))
        pkc = list(draw(st.permutations(names)))[:k]
        # optional sort direction per key column (written in upper case: the lower-case spelling is not recognised by the pinned tree)
        orders = [draw(st.sampled_from([None, None, "ASC", "DESC"])) for _ in pkc]
        titems.append({"kind": "pk", "name": cnames[0] if pk_kind == "named" else None, "cols": pkc, "orders": orders})
    for j in range(draw(st.integers(0, 3))):
        k = draw(st.integers(1, min(4, n)))
        uc = list(draw(st.permutations(names)))[:k]
        titems.append({"kind": "uq", "name": cnames[1 + j] if draw(st.booleans()) else None, "cols": uc})
    for j in range(draw(st.integers(0, 2))):
        titems.append({"kind": "check", "name": cnames[4 + j] if draw(st.booleans()) else None, "expr": draw(check_expr(names))})
    if draw(st.integers(0, 9)) < 4:
        free = [c["name"] for c in cols if not any(o[0] == "REF" for o in c["opts"])]
        if free:
            k = draw(st.integers(1, min(3, len(free))))
            fc = list(draw(st.permutations(free)))[:k]
            ref = draw(gen.reference(styles=styles))
            rcols = draw(gen.distinct_names(k, styles=styles))
            titems.append({"kind": "fk", "name": cnames[6] if draw(st.booleans()) else None, "cols": fc, "ref": ref, "rcols": rcols})
    # positions: anywhere among the columns (after the first one)
    for it in titems:
        it["pos"] = draw(st.integers(1, n)) if draw(st.integers(0, 9)) < 5 else n
    titems = [dict(it) for it in draw(st.permutations(titems))] if len(titems) > 1 else titems
    return {"schema": draw(st.one_of(st.none(), gen.ident(styles=styles))), "name": draw(gen.ident(styles=styles)),
            "cols": cols, "titems": titems, "layout": draw(gen.layout(max_len=50))}


def apply_carve_outs(case):
    """K16: an unnamed single-column UNIQUE clause written before its column is a known finding -> the
    item is moved behind its column (by construction). Returns number of adjusted items."""
    names = [c["name"] for c in case["cols"]]
    adjusted = 0
    # K18: an inline CHECK whose whole expression is one '=' comparison must be the column's last option
    for c in case["cols"]:
        for i, o in enumerate(c["opts"]):
            if o[0] == "CHECK" and len(o[2]) == 3 and o[2][1][0] == "=" and i != len(c["opts"]) - 1:
                c["opts"].append(c["opts"].pop(i))
                adjusted += 1
                break
    for it in case["titems"]:
        if it["kind"] == "uq" and it["name"] is None and len(it["cols"]) == 1:
            need = names.index(it["cols"][0]) + 1
            if it["pos"] < need:
                it["pos"] = need
                adjusted += 1
    return adjusted


def titem_tokens(it):
    toks = []
    if it["name"]:
        toks += K("CONSTRAINT") + [I(it["name"])]
    if it["kind"] == "pk":
        orders = it.get("orders") or [None] * len(it["cols"])
        toks += K("PRIMARY", "KEY") + plist([[I(c)] + ([V(o)] if o else []) for c, o in zip(it["cols"], orders)])
    elif it["kind"] == "uq":
        toks += K("UNIQUE") + plist([[I(c)] for c in it["cols"]])
    elif it["kind"] == "check":
        toks += K("CHECK") + [LP] + [tuple(x) for x in it["expr"]] + [RP]
    elif it["kind"] == "fk":
        toks += K("FOREIGN", "KEY") + plist([[I(c)] for c in it["cols"]]) + gen.reference_tokens(it["ref"], it["rcols"])
    return toks


def build_items(case):
    items = []
    n = len(case["cols"])
    for i, c in enumerate(case["cols"]):
        for it in case["titems"]:
            if it["pos"] == i and i > 0:
                items.append({"raw": titem_tokens(it)})
        items.append({"col": c})
    for it in case["titems"]:
        if it["pos"] >= n or it["pos"] <= 0:
            items.append({"raw": titem_tokens(it)})
    return items


class C02(Prop):
    id = "C02"
    rule = ("case = one CREATE TABLE of 2..7 columns with any mix of inline NOT NULL / UNIQUE / PRIMARY KEY / "
            "[CONSTRAINT n] CHECK / [CONSTRAINT n] REFERENCES and table-level [CONSTRAINT n] PRIMARY KEY (1..3) / UNIQUE (1..4) / "
            "CHECK (col op k [AND|OR ...]) / FOREIGN KEY (1..3) REFERENCES ..., each table-level item at any position "
            "among the columns; names plain or delimited; non-trivial = >= 1 table-level item and >= 1 inline "
            "constraint in the same table, or a constraint of >= 3 columns; distinct = SHA-1 of the case")
    budgets = {"quick": 10000, "thorough": 200000}
    assumptions = [
        "two-word referential actions (SET NULL, NO ACTION) are known finding K9 and not generated",
        "an unnamed single-column UNIQUE clause is always placed behind its column (known finding K16)",
        "an inline CHECK that is a single '=' comparison is always the column's last option (known finding K18)",
        "CHECK operands are comparisons col op integer joined by AND/OR (IN / BETWEEN forms are not generated)",
        "the flag of a column that is the only column of a *named* UNIQUE constraint is not fixed by the property",
    ]

    def strategy(self, tier):
        return st.one_of(case_strategy(("plain",)), case_strategy(gen.STYLES))

    def fixed_cases(self):
        return []

    def build(self, case, stats=None):
        tbl = {"schema": case["schema"], "name": case["name"], "items": build_items(case)}
        return render_script([gen.create_table_tokens(tbl)], case["layout"], stats)

    def describe(self, case):
        c = {k: v for k, v in case.items()}
        c2 = {"cols": [dict(x, opts=list(x["opts"])) for x in case["cols"]], "titems": [dict(x) for x in case["titems"]], "schema": case["schema"], "name": case["name"], "layout": case["layout"]}
        apply_carve_outs(c2)
        return {"ddl": self.build(c2)}

    def evaluate(self, case):
        out = Outcome()
        case0 = case
        case = {"cols": [dict(c, opts=list(c["opts"])) for c in case["cols"]], "titems": [dict(x) for x in case["titems"]], "schema": case["schema"], "name": case["name"], "layout": case["layout"]}
        if not case0.get("_no_carve") and apply_carve_outs(case):
            out.label("K16_K18_adjusted")
        ddl = self.build(case)
        names = [c["name"] for c in case["cols"]]
        inline_any = any(c["opts"] for c in case["cols"])
        out.nontrivial = bool(case["titems"] and inline_any) or any(len(it.get("cols", [])) >= 3 for it in case["titems"])
        for it in case["titems"]:
            out.label("titem:%s:%s" % (it["kind"], "named" if it["name"] else "unnamed"), "pos:%s" % ("end" if it["pos"] >= len(names) else "middle"))
        out.label("titems=%d" % len(case["titems"]))
        low = [c["name"].strip('"`[]').lower() for c in case["cols"]]
        if len(set(low)) < len(low):
            out.label("columns-differing-by-case-and-quotes-only")
        r = loader.try_parse(ddl)
        out.parses += 1
        if r[0] != "ok":
            out.fail("exception", "%s: %s on %r" % (r[1], r[2], ddl))
            return out
        res = r[1]
        with compare(out, "result"):
            if len(res) != 1 or "columns" not in res[0]:
                out.fail("table-lost", "got %r for %r" % (res, ddl))
                return out
            e = res[0]
            cols = {c["name"]: c for c in e["columns"]}
            if [c["name"] for c in e["columns"]] != names:
                out.fail("column-list", "declared %r reported %r; %r" % (names, [c["name"] for c in e["columns"]], ddl))
                return out
            # ---- primary key
            pk = [c["name"] for c in case["cols"] if any(o[0] == "PK" for o in c["opts"])]
            for it in case["titems"]:
                if it["kind"] == "pk":
                    pk = list(it["cols"])
            if e["primary_key"] != pk:
                out.fail("primary-key", "expected %r got %r; %r" % (pk, e["primary_key"], ddl))
            # ---- per column
            unnamed_single = set()
            named_single = set()
            fk_cols = {}
            for it in case["titems"]:
                if it["kind"] == "uq" and len(it["cols"]) == 1:
                    (named_single if it["name"] else unnamed_single).add(it["cols"][0])
                if it["kind"] == "fk" and not it["name"]:
                    for c_, r_ in zip(it["cols"], it["rcols"]):
                        fk_cols[c_] = (it["ref"], r_)
            for c in case["cols"]:
                got = cols[c["name"]]
                kinds = {o[0]: o for o in c["opts"]}
                must = "UNIQUE" in kinds or c["name"] in unnamed_single
                mustnot = not must and c["name"] not in named_single
                if must and got["unique"] is not True:
                    out.fail("unique-missing", "column %r should be flagged unique; %r" % (c["name"], ddl))
                if mustnot and got["unique"] is not False:
                    out.fail("unique-invented", "column %r must not be flagged unique; %r" % (c["name"], ddl))
                exp_nullable = not ("NOTNULL" in kinds or c["name"] in pk)
                if got["nullable"] is not exp_nullable:
                    out.fail("nullable", "column %r nullable expected %r got %r; %r" % (c["name"], exp_nullable, got["nullable"], ddl))
                g = got["references"]
                if "REF" in kinds:
                    if not gen.ref_matches(g, kinds["REF"][1]):
                        out.fail("references", "column %r expected %r got %r; %r" % (c["name"], kinds["REF"][1], g, ddl))
                elif c["name"] in fk_cols:
                    ref, rc = fk_cols[c["name"]]
                    if not gen.ref_matches(g, ref, rc):
                        out.fail("references", "column %r (FOREIGN KEY clause) expected %r(%s) got %r; %r" % (c["name"], ref, rc, g, ddl))
                elif g is not None:
                    out.fail("references-invented", "column %r got %r; %r" % (c["name"], g, ddl))
                gc = got["check"]
                if "CHECK" in kinds:
                    cn, expr = kinds["CHECK"][1], expr_text(kinds["CHECK"][2])
                    if cn is None:
                        if not isinstance(gc, str) or gen.ws_free(gc) != gen.ws_free(expr):
                            out.fail("column-check", "column %r expected %r got %r; %r" % (c["name"], expr, gc, ddl))
                    elif not isinstance(gc, dict) or gc.get("constraint_name") != cn or gen.ws_free(str(gc.get("statement"))) != gen.ws_free(expr):
                        out.fail("column-check", "column %r expected %s: %r got %r; %r" % (c["name"], cn, expr, gc, ddl))
                elif gc is not None:
                    out.fail("check-invented", "column %r got %r; %r" % (c["name"], gc, ddl))
            # ---- table level checks: exactly once each (multiset)
            exp_checks = sorted((str(it["name"]), gen.ws_free(expr_text(it["expr"]))) for it in case["titems"] if it["kind"] == "check")
            got_checks = sorted((str(x["constraint_name"]), gen.ws_free(x["statement"])) for x in e["checks"])
            if exp_checks != got_checks:
                out.fail("checks", "expected %r got %r; %r" % (exp_checks, got_checks, ddl))
            # ---- named constraints
            cons = e.get("constraints") or {}
            for key, kind in (("primary_keys", "pk"), ("uniques", "uq")):
                # names starting with UC_ are what the library invents for unnamed UNIQUE clauses: left out on both sides
                expn = sorted((it["name"], list(it["cols"])) for it in case["titems"] if it["kind"] == kind and it["name"] and not it["name"].startswith("UC_"))
                gotn = sorted((x["constraint_name"], list(x["columns"])) for x in cons.get(key, []) if not str(x["constraint_name"]).startswith("UC_"))
                if expn != gotn:
                    out.fail("named-" + key, "expected %r got %r; %r" % (expn, gotn, ddl))
            expc = sorted((it["name"], gen.ws_free(expr_text(it["expr"]))) for it in case["titems"] if it["kind"] == "check" and it["name"])
            gotc = sorted((x["constraint_name"], gen.ws_free(x["statement"])) for x in cons.get("checks", []))
            if expc != gotc:
                out.fail("named-checks", "expected %r got %r; %r" % (expc, gotc, ddl))
            expf = [(it["name"], list(it["cols"]), list(it["rcols"]), it["ref"]["table"], it["ref"]["schema"], it["ref"]["on_delete"], it["ref"]["on_update"])
                    for it in case["titems"] if it["kind"] == "fk" and it["name"]]
            gotf = [(x["constraint_name"], x["name"] if isinstance(x["name"], list) else [x["name"]], list(x["columns"]), x["table"], x["schema"], x["on_delete"], x["on_update"])
                    for x in cons.get("references", [])]
            if expf != gotf:
                out.fail("named-references", "expected %r got %r; %r" % (expf, gotf, ddl))
        return out


PROP = C02()
