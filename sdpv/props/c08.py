"""C08 - comments never change what is parsed and are reported separately.

Oracle: metamorphic. A generated (or corpus) script is rendered to lines; comments of every listed style are
inserted before / after / between / inside its lines and appended to code lines. The entities must equal
those of the comment-free script, no marker word of a comment may occur anywhere inside an entity, and every
item of the comments entry must be text of an inserted comment, in source order.
"""
import re

from hypothesis import strategies as st

from .. import gen, loader, universe
from ..engine import Outcome, Prop
from ..render import render_script
from . import c05

WHOLE_STYLES = ["dash", "dash_nb", "dash_ind", "hash", "hash_ind", "block1", "block1_ind", "multi"]
TRAIL_STYLES = ["t_dash", "t_dash_nb", "t_block"]
FILL = ["CREATE TABLE", "create table x (", "NOT NULL", "PRIMARY KEY", "select * from", "DROP", "ALTER TABLE t ADD", "INSERT", "GO", "SET",
        ",", "(", ")", ";", "=", "a = b", ", ,", "((", "))", ");", "word", "todo", "int", "DEFAULT 5", "x , y", "end;", "USE db;", "references t (id)",
        "//", "see https://wiki.local/money", "a // b", "path/to//x"]
IN_COMMENT_RE = re.compile(r"((\")|(\'))+(.)*(--)+(.)*((\")|(\'))+")  # frozen copy of the pre-processor's test (K21 predicate)


# comment markers that may occur as text inside a comment of a given style / line role (the others are known finding K22 or
# would end the comment)
NESTED = {
    "dash": ["/*", "*/", "#", "--", "/* x */"], "dash_nb": ["/*", "*/", "#", "--"], "dash_ind": ["/*", "*/", "#", "--"],
    "hash": ["--", "/*", "/* x */", "#"], "hash_ind": ["--", "/*", "#"],
    "block1": ["#"], "block1_ind": ["#"], "multi_first": ["#"], "multi_mid": ["--", "#", "/*", "-----"], "multi_last": ["--", "#", "-----"],
    "t_dash": ["*/", "#", "--"], "t_dash_nb": ["*/", "#", "--"], "t_block": ["#"],
}


@st.composite
def comment_text(draw, idx, line_no, role):
    parts = ["zq%dx%d" % (idx, line_no)]
    for _ in range(draw(st.integers(0, 3))):
        parts.insert(draw(st.integers(0, len(parts))), draw(st.sampled_from(FILL)))
    if draw(st.integers(0, 3)) == 0:
        parts.insert(draw(st.integers(0, len(parts))), draw(st.sampled_from(NESTED[role])))
    return " ".join(parts)


@st.composite
def comment_op(draw, idx):
    style = draw(st.sampled_from(WHOLE_STYLES + TRAIL_STYLES))
    n = draw(st.integers(2, 5)) if style == "multi" else 1
    roles = [style] if style != "multi" else ["multi_first"] + ["multi_mid"] * (n - 2) + ["multi_last"]
    return {"style": style, "at": draw(st.integers(0, 400)), "text": [draw(comment_text(idx, j, r)) for j, r in enumerate(roles)],
            "close_own_line": draw(st.booleans()), "flush": draw(st.booleans())}


@st.composite
def gen_case(draw):
    blocks = draw(universe.script(1, 3, kinds=[k for k in universe.BLOCK_KINDS if k != "set"] + ["tables", "ctable"]))
    lay = draw(c05.drawn_layout())
    lay["crlf"] = False
    ops = [draw(comment_op(i)) for i in range(draw(st.integers(1, 5)))]
    return {"src": "gen", "blocks": blocks, "layout": lay if draw(st.integers(0, 4)) else None, "ops": ops,
            "noterm": draw(st.integers(0, 3)) == 0, "loud": draw(st.integers(0, 3)) == 0}


@st.composite
def corpus_case(draw):
    n = len(universe.corpus())
    ops = [draw(comment_op(i)) for i in range(draw(st.integers(1, 4)))]
    return {"src": "corpus", "item": draw(st.integers(0, n - 1)), "ops": ops}


ML_WORDS = ["order id", "assigned by billing", "see below", "n/a", "first line", "second", "x", "a b c", "value 1", "to be defined"]


@st.composite
def ml_case(draw):
    """a table whose string literals (column COMMENT / DEFAULT, table COMMENT) run over several lines; comments are inserted around them and
    appended to the lines that close them (a line inside a literal is text, not a place for a comment)"""
    cols = []
    for i in range(draw(st.integers(2, 4))):
        lit = None
        if draw(st.integers(0, 2)) > 0:
            lit = [draw(st.sampled_from(ML_WORDS)) for _ in range(draw(st.integers(2, 3)))]
        cols.append({"name": "c%d" % i, "type": draw(st.sampled_from(["int", "varchar(10)", "text", "decimal(10,2)"])), "lit": lit,
                     "kw": draw(st.sampled_from(["COMMENT", "DEFAULT"])), "after": draw(st.sampled_from(["", " NOT NULL", " NULL"])),
                     "indent": draw(st.sampled_from(["", "  ", "      "]))})
    tcomment = [draw(st.sampled_from(ML_WORDS)) for _ in range(2)] if draw(st.booleans()) else None
    ops = [draw(comment_op(i)) for i in range(draw(st.integers(1, 5)))]
    for o in ops[:2]:
        if draw(st.booleans()):
            o["style"] = draw(st.sampled_from(TRAIL_STYLES))  # trailing comments are the point here
            o["text"] = [draw(comment_text(ops.index(o), 0, o["style"]))]  # text drawn for the final style (nested markers depend on it)
    return {"src": "ml", "cols": cols, "tcomment": tcomment, "ops": ops, "second": draw(st.booleans())}


def ml_lines(case):
    """-> (lines, indices of lines that continue a literal, indices of lines that end inside a literal)"""
    lines, cont, open_end = ["CREATE TABLE ml_t ("], set(), set()
    for n, c in enumerate(case["cols"]):
        end = "," if n < len(case["cols"]) - 1 else ""
        if not c["lit"]:
            lines.append("  %s %s%s%s" % (c["name"], c["type"], c["after"], end))
            continue
        lines.append("  %s %s %s '%s" % (c["name"], c["type"], c["kw"], c["lit"][0]))
        open_end.add(len(lines) - 1)
        for piece in c["lit"][1:-1]:
            lines.append(c["indent"] + piece)
            cont.add(len(lines) - 1)
            open_end.add(len(lines) - 1)
        lines.append("%s%s'%s%s" % (c["indent"], c["lit"][-1], c["after"], end))
        cont.add(len(lines) - 1)
    if case["tcomment"]:
        lines.append(") COMMENT '%s" % case["tcomment"][0])
        open_end.add(len(lines) - 1)
        lines.append("  %s';" % case["tcomment"][1])
        cont.add(len(lines) - 1)
    else:
        lines.append(");")
    if case.get("second"):
        lines += ["CREATE TABLE ml_u (", "  a int,", "  b int", ");"]
    return lines, cont, open_end


def comment_lines(op):
    """-> (lines to insert, None) for whole-line styles | (None, suffix) for trailing styles"""
    s, t = op["style"], op["text"]
    if s == "dash":
        return ["-- " + t[0]], None
    if s == "dash_nb":
        return ["--" + t[0]], None
    if s == "dash_ind":
        return ["    -- " + t[0]], None
    if s == "hash":
        return ["# " + t[0]], None
    if s == "hash_ind":
        return ["  #" + t[0]], None
    if s == "block1":
        return ["/* " + t[0] + " */"], None
    if s == "block1_ind":
        return ["   /* " + t[0] + " */"], None
    if s in ("multi", "multi_ind"):
        ind = "" if op.get("flush") else "  "
        lines = [("   /* " if s == "multi_ind" else "/* ") + t[0]] + [ind + x for x in t[1:-1]]
        lines += [ind + t[-1], "*/"] if op["close_own_line"] else [ind + t[-1] + " */"]
        return lines, None
    if s == "t_dash":
        return None, "  -- " + t[0]
    if s == "t_dash_nb":
        return None, " --" + t[0]
    return None, " /* " + t[0] + " */"


def apply_ops(lines, ops, conservative=False, no_carve=False, no_before=(), no_trail=()):
    """-> (new lines, applied ops in source order, stats). Whole-line comments are inserted before line (at % (n+1));
    trailing comments are appended to the code line (at % n) unless a carve-out applies."""
    n = len(lines)
    before = {}
    trail = {}
    stats = {"K21_skipped": 0, "skipped": 0, "inside": 0}

    def open_statement(i):
        """is line i (0-based) preceded by code of a statement that is not finished yet?"""
        prev = [l for l in lines[:i] if l.strip()]
        if not prev or prev[-1].rstrip().endswith(";") or prev[-1].strip().upper() == "GO":
            return False
        return not re.match(r"\s*(CREATE|ALTER|DROP)\b", lines[i], re.I)

    for op in ops:
        ins, suffix = comment_lines(op)
        if ins is not None:
            if op["at"] % (n + 1) in no_before:
                stats["skipped"] += 1  # the line continues a string literal: nothing can be inserted in front of it
                continue
            before.setdefault(op["at"] % (n + 1), []).append(op)
        else:
            i = op["at"] % n
            code = lines[i]
            if not code.strip() or i in trail or i in no_trail:
                stats["skipped"] += 1
                continue
            if ("--" in code or IN_COMMENT_RE.search(code + suffix)) and not no_carve:
                stats["K21_skipped"] += 1  # K21: code line carrying '--' inside a quoted literal
                continue
            if conservative and re.search(r"['\"`#]", code):
                stats["skipped"] += 1
                continue
            trail[i] = op
    out, order = [], []
    for i in range(n + 1):
        for op in before.get(i, []):
            out.extend(comment_lines(op)[0])
            order.append(op)
            if i < n and open_statement(i):
                stats["inside"] += 1
        if i < n:
            if i in trail:
                out.append(lines[i] + comment_lines(trail[i])[1])
                order.append(trail[i])
                if not lines[i].rstrip().endswith(";") and i + 1 < n and open_statement(i + 1):
                    stats["inside"] += 1
            else:
                out.append(lines[i])
    return out, order, stats


def strings_in(obj):
    if isinstance(obj, dict):
        for k, v in obj.items():
            yield from strings_in(k)
            yield from strings_in(v)
    elif isinstance(obj, (list, tuple)):
        for v in obj:
            yield from strings_in(v)
    elif isinstance(obj, str):
        yield obj


def split_comments(result):
    if isinstance(result, dict):  # group_by_type=True
        return {k: v for k, v in result.items() if k != "comments"}, list(result.get("comments", []))
    ents = [e for e in result if not (isinstance(e, dict) and set(e) == {"comments"})]
    com = [c for e in result if isinstance(e, dict) and set(e) == {"comments"} for c in e["comments"]]
    return ents, com


def squeeze(s):
    return re.sub(r"\s+", "", s.replace("*/", "").replace("/*", ""))


class C08(Prop):
    id = "C08"
    rule = ("case = a generated script of 1..3 blocks (every statement kind, drawn multi-line layout), a table whose string literals "
            "(column COMMENT / DEFAULT, table COMMENT) run over 2..3 lines, or a comment-free regression-corpus script, plus 1..5 inserted comments, each of one of 11 styles: whole-line '-- x', '--x', indented "
            "'--', '# x', indented '#', '/* x */' at column 0 or indented, multi-line block comment of 2..5 lines (opener at column "
            "0, closer ending its line or on its own line) before / between / inside statements, trailing '-- x', '--x' or "
            "'/* x */' after the code of a line; comment text = marker word zq<i>x<j> mixed with SQL keywords, statement-level "
            "words, commas, parentheses (also unbalanced), semicolons, '='; relations: entities == comment-free parse, no marker "
            "inside any entity, comments entry items are inserted comment text in source order; non-trivial = >= 2 comments of "
            ">= 2 styles with >= 1 inside a statement; distinct = SHA-1 of the case")
    budgets = {"quick": 3000, "thorough": 120000}
    assumptions = [
        "comment text is quote-free and contains no comment markers (the property's list of contents)",
        "a multi-line block comment opens at column 0 (indented opener: known finding K10) and nothing follows a closing */ on its line",
        "no trailing comment is appended to a code line that contains '--' (inside a quoted literal: known finding K21); counted",
        "for corpus scripts trailing comments are only appended to lines without quotes, back-ticks or '#'; corpus scripts that "
        "already contain comments are skipped (their own comments would mix with the inserted ones)",
    ]

    def strategy(self, tier):
        return st.one_of(gen_case(), gen_case(), gen_case(), corpus_case(), ml_case())

    def enumerated(self, tier):
        # deterministic sweep: every corpus script x a fixed set of comment insertions (each style at three positions)
        def op(style, at, i):
            n = 3 if style == "multi" else 1
            return {"style": style, "at": at, "text": ["zq%dx%d , ( todo ;" % (i, j) for j in range(n)], "close_own_line": at % 2 == 0, "flush": at % 3 == 0}
        for i in range(len(universe.corpus())):
            for k, at in enumerate((0, 2, 5, 9)):
                styles = (WHOLE_STYLES + TRAIL_STYLES)[k::4]
                yield {"src": "corpus", "item": i, "ops": [op(s, at + 3 * n, n) for n, s in enumerate(styles)]}

    def base_text(self, case):
        if case["src"] == "ml":
            return "\n".join(ml_lines(case)[0]) + "\n"
        if case["src"] == "corpus":
            return universe.corpus()[case["item"]]["ddl"].replace("\r\n", "\n")
        stmts = universe.script_statements(case["blocks"])
        if case.get("noterm"):
            # the library also accepts scripts without ';': a line starting with CREATE / ALTER / DROP opens the next statement
            stmts = [[t for t in s if t[1] != "E"] if i < len(stmts) - 1 else s for i, s in enumerate(stmts)]
        return render_script(stmts, case["layout"])

    def protected(self, case):
        if case["src"] != "ml":
            return (), ()
        _, cont, open_end = ml_lines(case)
        return cont, open_end

    def describe(self, case):
        base = self.base_text(case)
        lines, order, _ = apply_ops(base.split("\n"), case["ops"], case["src"] == "corpus", case.get("_no_carve"), *self.protected(case))
        return {"ddl": "\n".join(lines), "comment_styles": [o["style"] for o in order], "source": case["src"]}

    def evaluate(self, case):
        out = Outcome()
        kw = {}
        if case["src"] == "corpus":
            it = universe.corpus()[case["item"]]
            if not c05.corpus_ok(it) or any(l.count("'") % 2 for l in it["ddl"].split("\n")) or "nonascii" in universe.corpus_flags(it):
                out.excluded = "corpus-item-with-comments-or-multiline-literal"
                return out
            kw = dict(it["ctor"], **it["run"])
            kw.pop("debug", None)
            kw.pop("json_dump", None)
        base = self.base_text(case)
        base_lines = base.split("\n")
        lines, order, stats = apply_ops(base_lines, case["ops"], case["src"] == "corpus", case.get("_no_carve"), *self.protected(case))
        if case["src"] == "ml" and any(o["style"] in TRAIL_STYLES for o in order):
            out.label("trailing-comment-next-to-multi-line-literal")
        if stats["K21_skipped"]:
            out.label("K21_trailing_skipped")
        if not order:
            out.excluded = "no-comment-applicable"
            return out
        text = "\n".join(lines)
        styles = set(o["style"] for o in order)
        for o in order:
            out.label("style:" + o["style"])
        out.label("src:" + case["src"])
        if case["src"] == "gen" and case.get("loud"):
            # every generated statement is supported, so silent=False returns the same entities - with or without comments
            kw = dict(kw, silent=False)
            out.label("silent=False")
        out.nontrivial = len(order) >= 2 and len(styles) >= 2 and stats["inside"] > 0
        out.label("inside_statement=%s" % (stats["inside"] > 0))
        r0 = loader.try_parse(base, **kw)
        r1 = loader.try_parse(text, **kw)
        out.parses += 2
        if r0[0] != "ok":
            if r1[0] == "ok" or r1[1] != r0[1]:
                out.fail("exception-differs", "comment-free raises %r, commented %r\n%r" % (r0[1:], r1[1:] if r1[0] != "ok" else "ok", text))
            return out
        if r1[0] != "ok":
            out.fail("exception", "%s: %s\ncommented=%r" % (r1[1], r1[2], text))
            return out
        e0, c0 = split_comments(r0[1])
        e1, c1 = split_comments(r1[1])
        if e0 != e1:
            out.fail("entities-changed", "comment-free=%r\ncommented   =%r\nexpected=%r\ngot     =%r" % (base, text, e0, e1))
            return out
        for s in strings_in(e1):
            if re.search(r"zq\d+x\d+", s):
                out.fail("comment-text-in-entity", "%r inside an entity; commented=%r" % (s, text))
                break
        if case["src"] in ("gen", "ml"):
            texts = [squeeze(" ".join(comment_lines(o)[0]) if comment_lines(o)[0] is not None else comment_lines(o)[1]) for o in order]
            pos = 0
            for item in c1:
                it = squeeze(item)
                if not it:
                    continue
                found = None
                for j in range(pos, len(texts)):
                    if it in texts[j]:
                        found = j
                        break
                if found is None:
                    anywhere = any(it in t for t in texts)
                    out.fail("comments-entry:" + ("order" if anywhere else "not-comment-text"),
                             "comments item %r is not text of an inserted comment (in source order); comments=%r\ncommented=%r" % (item, c1, text))
                    break
                pos = found
        return out


PROP = C08()
