"""C07 - string and numeric literals are reported exactly as written.

Oracle: reference model - the reported value must equal the written literal, quotes included; numeric
defaults must be ints of the same value; neighbouring columns / statement count unchanged.

Known findings K1-K4 (everywhere) and K14/K15 (one position each) are carved out by *frozen*
predicates kept here (not read from the code under test), so any new alteration is still reported.
"""
import re
import string

from hypothesis import strategies as st

from .. import loader
from ..engine import Outcome, Prop, compare

# ---- frozen copy of the three spacing substitutions of the pinned pre-processor (K1 predicate)
_QB = r"((?!\'[\w]*[\\']*[\w]*)"
_QA = r"((?![\w]*[\\']*[\w]*\')))"


def simulate_spacing(data):
    num = 0
    for symbol, replace_to in [(r"(,)+", " , "), (r"((\()){1}", " ( "), (r"((\))){1}", " ) ")]:
        num += 1
        qa = _QA.replace(")))", "))*)") if num == 2 else _QA
        data = re.sub(_QB + symbol + qa, replace_to, data)
    return data


def carve(body, ddl, pos):
    lit = "'" + body + "'"
    if any(ord(c) > 126 or ord(c) < 32 or c == "\\" for c in body):
        return "K3"
    if "/*" in body or "*/" in body:
        return "K4"
    if re.search(r"\b=", body):
        return "K2"
    if lit not in simulate_spacing(ddl):
        return "K1"
    if pos in ("options", "col_options") and "''" in body:
        return "K14"
    if pos in ("tblprop", "tblprop_key", "serdeprop", "col_tag", "tbl_tag") and "=" in body:
        return "K15"
    return None


PUNCT = ";:<>[]{}\"`@&|!?$%~+-*/.#_ ,)=(^"
WORDS = ["NOT NULL", "primary key", "create table", "select", "DEFAULT", "x", "abc", "Zq9", "--", "#", "''", " ", "  ", "a b", "100%",
         "1,2", "a,b", "k=v", "drop table", "/*", "*/", "\\", "ü", "null", "CHECK", "references t (x)", "-- x", "# y", ";", "it''s",
         # ordinary words and notations that merely contain the letters of a keyword or an operator of some dialect
         "for", "n/a for now", "California", "Before noon", "order by", "on update", "as of", "in", "::", "::1", "Spree::Order", "a::text",
         "next value", "array", "enum", "set", "like", "tag", "index"]

MODES = ["mysql", "postgres", "hql", "mssql", "oracle", "redshift", "snowflake", "bigquery", "spark_sql", "databricks", "sqlite", "vertics", "ibm_db2", "athena"]
# positions whose value sits in a field every output mode reports
MODE_FREE_POS = {"default", "default_last", "check", "type_enum", "col_enum", "alter_default", "alter_add_default", "two_literals"}

POS = {
    "default": ("create table t (a int, b varchar(10) default {L} not null, c int);", {}),
    "default_last": ("create table t (a int, b varchar(10) default {L});", {}),
    "col_comment": ("create table t (a int, b varchar(10) comment {L}, c int);", {}),
    "tbl_comment": ("create table t (a int, b int) comment {L};", {"output_mode": "hql"}),
    "type_enum": ("create type e as enum ({L}, 'z');", {}),
    "col_enum": ("create table t (a int, b enum('q', {L}), c int);", {}),
    "location": ("create table t (a int) location {L};", {"output_mode": "hql"}),
    "fields_term": ("create table t (a int) row format delimited fields terminated by {L};", {"output_mode": "hql"}),
    "tblprop": ("create table t (a int) tblproperties ('k'={L});", {"output_mode": "hql"}),
    "tblprop_key": ("create table t (a int) tblproperties ({L}='v');", {"output_mode": "hql"}),
    "options": ("create table t (a int) options (description={L});", {"output_mode": "bigquery"}),
    "schema_comment": ("create schema s comment {L};", {}),
    "check": ("create table t (a int, b varchar(10) check (b <> {L}), c int);", {}),
    "datafile": ("create tablespace ts DATAFILE {L} SIZE 10M;", {}),
    "alter_default": ("create table t (a int, b varchar(9));\nalter table t add default {L} for b;", {}),
    "snow_comment": ("create table t (a int, b int) comment = {L};", {"output_mode": "snowflake"}),
    "two_literals": ("create table t (a varchar(5) default {L} comment 'k1', b varchar(5) comment {L} default 'k2', c int);", {}),
    "serde_class": ("create table t (a int) row format serde {L};", {"output_mode": "hql"}),
    "serdeprop": ("create table t (a int) row format serde 'c.S' with serdeproperties ('k'={L});", {"output_mode": "hql"}),
    "inputformat": ("create table t (a int) stored as inputformat {L} outputformat 'o.F';", {"output_mode": "hql"}),
    "coll_items": ("create table t (a int) row format delimited collection items terminated by {L} map keys terminated by 'x';", {"output_mode": "hql"}),
    "map_keys": ("create table t (a int) row format delimited map keys terminated by {L};", {"output_mode": "hql"}),
    "lines_term": ("create table t (a int) lines terminated by {L};", {"output_mode": "hql"}),
    "col_options": ("create table t (a int, b int options(description={L}), c int);", {"output_mode": "bigquery"}),
    "alter_add_default": ("create table t (a int);\nalter table t add b varchar(5) default {L};", {}),
    "col_tag": ("create table t (a int, b int with tag (k1={L}), c int);", {"output_mode": "snowflake"}),
    "tbl_tag": ("create table t (a int) with tag (k1={L});", {"output_mode": "snowflake"}),
    "db_comment": ("create database d comment {L};", {}),
}
NUM_POS = {
    "default": ("create table t (a int, b bigint default {L} not null, c int);", {}),
    "default_last": ("create table t (a int, b bigint default {L});", {}),
    "alter_add": ("create table t (a int);\nalter table t add b bigint default {L};", {}),
}


def getter(pos, r):
    t = r[0]
    if pos in ("default", "default_last", "alter_default"):
        return t["columns"][1]["default"], [c["name"] for c in t["columns"]]
    if pos == "col_comment":
        return t["columns"][1]["comment"], [c["name"] for c in t["columns"]]
    if pos in ("tbl_comment", "snow_comment"):
        return t["comment"], [c["name"] for c in t["columns"]]
    if pos == "type_enum":
        return t["properties"]["values"][0], t["properties"]["values"][1:]
    if pos == "col_enum":
        return t["columns"][1]["values"][1], [c["name"] for c in t["columns"]] + t["columns"][1]["values"][:1]
    if pos == "location":
        return t["location"], [c["name"] for c in t["columns"]]
    if pos == "fields_term":
        return t["fields_terminated_by"], [c["name"] for c in t["columns"]]
    if pos == "tblprop":
        return t["tblproperties"]["'k'"], list(t["tblproperties"])
    if pos == "tblprop_key":
        return list(t["tblproperties"])[0], list(t["tblproperties"].values())
    if pos == "options":
        return t["options"][0]["description"], [c["name"] for c in t["columns"]]
    if pos == "schema_comment":
        return t["comment"], [t["schema_name"]]
    if pos == "check":
        return t["columns"][1]["check"], [c["name"] for c in t["columns"]]
    if pos == "datafile":
        return t["properties"]["DATAFILE"], [t["tablespace_name"], t["properties"].get("SIZE")]
    if pos == "two_literals":
        return (t["columns"][0]["default"], t["columns"][1]["comment"]), [c["name"] for c in t["columns"]] + [t["columns"][0]["comment"], t["columns"][1]["default"]]
    if pos == "serde_class":
        return t["row_format"]["java_class"], [c["name"] for c in t["columns"]]
    if pos == "serdeprop":
        return t["row_format"]["properties"]["'k'"], [t["row_format"]["java_class"]]
    if pos == "inputformat":
        return t["stored_as"]["inputformat"], [t["stored_as"]["outputformat"]]
    if pos == "coll_items":
        return t["collection_items_terminated_by"], [t["map_keys_terminated_by"]]
    if pos == "map_keys":
        return t["map_keys_terminated_by"], [c["name"] for c in t["columns"]]
    if pos == "lines_term":
        return t["lines_terminated_by"], [c["name"] for c in t["columns"]]
    if pos == "col_options":
        return t["columns"][1]["options"][0]["description"], [c["name"] for c in t["columns"]]
    if pos == "alter_add_default":
        return t["columns"][1]["default"], [c["name"] for c in t["columns"]]
    if pos == "col_tag":
        v = t["columns"][1]["with_tag"]
        return (v[3:] if isinstance(v, str) and v.startswith("k1=") else v), [c["name"] for c in t["columns"]]
    if pos == "tbl_tag":
        v = t["with_tag"]
        return (v[3:] if isinstance(v, str) and v.startswith("k1=") else v), [c["name"] for c in t["columns"]]
    if pos == "db_comment":
        return t["comment"], [t["database_name"]]
    if pos == "alter_add":
        return t["columns"][1]["default"], [c["name"] for c in t["columns"]]
    raise KeyError(pos)


NEIGHBOURS = {
    "default": ["a", "b", "c"], "default_last": ["a", "b"], "alter_default": ["a", "b"], "col_comment": ["a", "b", "c"],
    "tbl_comment": ["a", "b"], "snow_comment": ["a", "b"], "type_enum": ["'z'"], "col_enum": ["a", "b", "c", "'q'"], "location": ["a"],
    "fields_term": ["a"], "tblprop": ["'k'"], "tblprop_key": ["'v'"], "options": ["a"], "schema_comment": ["s"], "check": ["a", "b", "c"],
    "datafile": ["ts", "10M"], "two_literals": ["a", "b", "c", "'k1'", "'k2'"], "alter_add": ["a", "b"],
    "serde_class": ["a"], "serdeprop": ["'c.S'"], "inputformat": ["'o.F'"], "coll_items": ["'x'"], "map_keys": ["a"], "lines_term": ["a"],
    "col_options": ["a", "b", "c"], "alter_add_default": ["a", "b"], "col_tag": ["a", "b", "c"], "tbl_tag": ["a"], "db_comment": ["d"],
}

_alnum = string.ascii_letters + string.digits


@st.composite
def body_strategy(draw):
    n = draw(st.integers(0, 5))
    parts = []
    for _ in range(n):
        k = draw(st.integers(0, 9))
        if k < 4:
            parts.append(draw(st.sampled_from(WORDS)))
        elif k < 8:
            parts.append(draw(st.text(alphabet=PUNCT, min_size=1, max_size=3)))
        else:
            parts.append(draw(st.text(alphabet=_alnum, min_size=1, max_size=6)))
    return "".join(parts)


@st.composite
def case_strategy(draw):
    if draw(st.integers(0, 9)) == 0:
        digits = draw(st.text(alphabet="0123456789", min_size=1, max_size=25))
        return {"numeric": True, "pos": draw(st.sampled_from(sorted(NUM_POS))), "body": digits}
    # positions parsed in the default mode are also tried in a drawn dialect mode (the literal is the same in all of them)
    return {"numeric": False, "pos": draw(st.sampled_from(sorted(POS))), "body": draw(body_strategy()),
            "mode": draw(st.sampled_from([None, None, None] + MODES))}


class C07(Prop):
    id = "C07"
    rule = ("case = (literal body over printable ASCII: letters, digits, blanks, all punctuation incl. ; -- # : < > [ ] { } \" ` @ & | "
            "! ? $ % ~ + - * / . ^, keyword-shaped words, doubled quotes) x (28 literal positions: column DEFAULT (2), column / "
            "table COMMENT (3), CREATE TYPE ENUM value, column ENUM value, LOCATION, FIELDS TERMINATED BY, TBLPROPERTIES key / "
            "value, OPTIONS value, schema COMMENT, CHECK operand, tablespace DATAFILE, ALTER .. ADD DEFAULT .. FOR, two literals "
            "in one statement), or a numeric default of 1..25 digits (3 positions); plus a deterministic sweep of every "
            "printable character x 6 shapes x every position; non-trivial = body contains a punctuation character or a "
            "keyword-shaped word, or is numeric with >= 10 digits; distinct = SHA-1 of (position, body)")
    budgets = {"quick": 9000, "thorough": 300000}
    assumptions = [
        "literals hit by known findings K1 (frozen simulation of the three spacing substitutions changes the literal), K2 (word char "
        "before '='), K3 (non-ASCII, backslash, control), K4 (comment delimiters), K14 ('' in OPTIONS), K15 ('=' in TBLPROPERTIES) are "
        "excluded and counted; each has replay cases in known_findings.json",
        "the CHECK position requires the literal to occur verbatim in the reported statement",
    ]

    def strategy(self, tier):
        return case_strategy()

    def enumerated(self, tier):
        shapes = ["{c}", "a{c}", "{c}a", "a {c} b", "{c}{c}", "a''{c}"]
        for pos in sorted(POS):
            for code in range(32, 127):
                ch = chr(code)
                if ch == "'":
                    continue
                for sh in shapes:
                    yield {"numeric": False, "pos": pos, "body": sh.replace("{c}", ch)}

    def ddl(self, case):
        tpl, kw = (NUM_POS if case["numeric"] else POS)[case["pos"]]
        lit = case["body"] if case["numeric"] else "'" + case["body"] + "'"
        return tpl.replace("{L}", lit), kw, lit

    def describe(self, case):
        ddl, kw, lit = self.ddl(case)
        return {"ddl": ddl, "config": kw, "literal": lit, "position": case["pos"]}

    def evaluate(self, case):
        out = Outcome()
        ddl, kw, lit = self.ddl(case)
        pos = case["pos"]
        body = case["body"]
        if case.get("mode") and not kw and pos in MODE_FREE_POS:
            kw = {"output_mode": case["mode"]}
            out.label("mode:" + case["mode"])
        if not case["numeric"]:
            if body.replace("''", "").count("'"):
                out.excluded = "unbalanced-quote(not a literal)"
                return out
            if not case.get("_no_carve"):
                k = carve(body, ddl, pos)
                if k:
                    out.excluded = k
                    return out
            out.nontrivial = bool(re.search(r"[^A-Za-z0-9 ]", body)) or bool(re.search(r"(?i)\b(not null|primary key|create|select|default|drop|check|references|null)\b", body))
        else:
            out.nontrivial = len(body) >= 10
        out.label("pos:" + pos, "numeric" if case["numeric"] else "string")
        r = loader.try_parse(ddl, **kw)
        out.parses += 1
        if r[0] != "ok":
            out.fail("exception", "%s: %s on %r" % (r[1], r[2], ddl))
            return out
        with compare(out, "literal-lost"):
            if not r[1]:
                out.fail("statement-lost", "no entity for %r" % ddl)
                return out
            got, neigh = getter(pos, r[1])
            if case["numeric"]:
                if got != int(body) or type(got) is not int:
                    out.fail("numeric-default", "written %s reported %r; %r" % (body, got, ddl))
            elif pos == "check":
                if not isinstance(got, str) or lit not in got:
                    out.fail("literal-altered", "position %s: written %s reported %r; %r" % (pos, lit, got, ddl))
            elif pos == "two_literals":
                if got != (lit, lit):
                    out.fail("literal-altered", "position %s: written %s reported %r; %r" % (pos, lit, got, ddl))
            elif got != lit:
                out.fail("literal-altered", "position %s: written %s reported %r; %r" % (pos, lit, got, ddl))
            if neigh != NEIGHBOURS[pos]:
                out.fail("neighbours-changed", "position %s: expected %r got %r; %r" % (pos, NEIGHBOURS[pos], neigh, ddl))
            n_expected = 1
            if len(loader.no_comments(r[1])) != n_expected:
                out.fail("statement-count", "expected %d entity got %d; %r" % (n_expected, len(r[1]), ddl))
        return out


PROP = C07()
