"""C20 - the parse tables in use are those of the declared grammar, whatever the cache state.

Oracle: fault enumeration of the cache state of parsetab.py x differential. Every state is prepared in a private copy of
the working tree's package and exercised in a fresh interpreter (sys.modules caches the table module). The child reports
  * a digest of the LALR tables the parser object actually runs with (actions, gotos, productions),
  * the canonical JSON of its results for the whole regression corpus and a seeded batch of generated scripts,
  * the parsetab.py it leaves behind.
Relations: the digest of every state == digest of a fresh generation (state 'missing'); results of every state == results
with a valid cache; a state that forces regeneration in a writable directory leaves a file byte-identical to the fresh
generation; and if the *shipped* file's signature equals the fresh one, its actions, gotos and productions equal the fresh
generation's (file line numbers excluded).
"""
import hashlib
import json
import os
import re
import shutil
import subprocess
import sys
import time

from hypothesis import strategies as st

from .. import gen, loader, universe
from ..engine import Prop

VERIF = os.path.dirname(os.path.dirname(os.path.dirname(os.path.abspath(__file__))))

STATES = ["as_found", "missing", "valid", "stale_signature", "old_tabversion", "foreign_grammar", "foreign_newer", "read_only_missing"]

CHILD = r'''
import hashlib, json, logging, os, sys
logging.getLogger().addHandler(logging.NullHandler()); logging.getLogger().setLevel(logging.ERROR)
out = {}
try:
    import simple_ddl_parser
    from simple_ddl_parser import DDLParser
    pkg = os.path.dirname(simple_ddl_parser.__file__)
    out["pkg"] = pkg
    if len(sys.argv) > 2 and sys.argv[2].startswith("first:"):
        # one script, parsed by the very first parser object of the process - the one that meets the cache in its state
        it = json.load(open(sys.argv[1]))[int(sys.argv[2][6:])]
        try:
            r = DDLParser(it["ddl"], **it.get("ctor", {})).run(**it.get("run", {}))
            out["first"] = ["ok", hashlib.sha1(json.dumps(r, sort_keys=True, default=repr).encode()).hexdigest(), len(r) if hasattr(r, "__len__") else 0]
        except Exception as e:
            out["first"] = ["exc", type(e).__name__, str(e)[:600]]
        sys.stdout.write(json.dumps(out))
        sys.stdout.flush()
        os._exit(0)
    if len(sys.argv) > 2 and sys.argv[2] == "cli":
        # the sdp command is the first user of the tables in this process: what it prints must not depend on the cache state
        import contextlib, io
        from simple_ddl_parser import cli
        src = os.path.join(os.getcwd(), "cli_input.sql")
        with open(src, "w") as f:
            f.write(json.load(open(sys.argv[1]))[0]["ddl"])
        buf = io.StringIO()
        argv = sys.argv
        sys.argv = ["sdp", src, "--no-dump"]
        try:
            with contextlib.redirect_stdout(buf):
                try:
                    cli.main()
                    out["cli_exit"] = 0
                except SystemExit as e:
                    out["cli_exit"] = e.code
        finally:
            sys.argv = argv
        text = buf.getvalue().replace(os.getcwd(), "<cwd>")
        out["cli_stdout_sha1"] = hashlib.sha1(text.encode()).hexdigest()
        out["cli_stdout_len"] = len(text)
        out["cli_stdout_head"] = text[:300]
        sys.stdout.write(json.dumps(out))
        sys.stdout.flush()
        os._exit(0)
    # the first parser of the process (the one that finds the cache in its state) is a non-silent one: a stale cache is
    # an internal matter and must not surface as an error either
    p = DDLParser("create table t (a int);", silent=False)
    p.run()
    y = p.yacc
    prods = [(str(x), x.name, x.len, getattr(x, "func", None) if isinstance(getattr(x, "func", None), str) else getattr(getattr(x, "callable", None), "__name__", None)) for x in y.productions]
    # states without entries are left out of a table that was read from the cache file: compare the non-empty rows
    blob = json.dumps([sorted((k, sorted(v.items())) for k, v in y.action.items() if v), sorted((k, sorted(v.items())) for k, v in y.goto.items() if v), prods], default=str)
    out["digest"] = hashlib.sha1(blob.encode()).hexdigest()
    out["n_states"] = len(y.action)
    out["n_productions"] = len(y.productions)
    res = []
    for it in json.load(open(sys.argv[1])):
        try:
            r = DDLParser(it["ddl"], **it.get("ctor", {})).run(**it.get("run", {}))
            res.append(["ok", hashlib.sha1(json.dumps(r, sort_keys=True, default=repr).encode()).hexdigest(), len(r) if hasattr(r, "__len__") else 0])
        except Exception as e:
            res.append(["exc", type(e).__name__, str(e)[:600]])
    out["results"] = res
    tab = os.path.join(pkg, "parsetab.py")
    out["parsetab_sha1"] = hashlib.sha1(open(tab, "rb").read()).hexdigest() if os.path.exists(tab) else None
except BaseException as e:
    import traceback
    out["error"] = "%s: %s" % (type(e).__name__, str(e)[:300])
    out["trace"] = traceback.format_exc()[-1500:]
sys.stdout.write(json.dumps(out))
'''


def sha1_file(path):
    return hashlib.sha1(open(path, "rb").read()).hexdigest() if os.path.exists(path) else None


def load_tab(path):
    ns = {}
    with open(path) as f:
        exec(compile(f.read(), path, "exec"), ns)
    prods = [tuple(p[:4]) for p in ns.get("_lr_productions", [])]  # (str, name, len, func) - file and line dropped
    return {"signature": ns.get("_lr_signature"), "action": ns.get("_lr_action"), "goto": ns.get("_lr_goto"), "productions": prods,
            "tabversion": ns.get("_tabversion")}


class C20(Prop):
    id = "C20"
    level = "fault_enumeration"
    rule = ("fault space = 8 cache states of parsetab.py, each prepared in a private copy of the working tree's package and run in a "
            "fresh interpreter: as found, missing, valid (regenerated, second start), stale signature (one character changed), older "
            "_tabversion, tables of a foreign grammar (one production edited) with their own signature, the "
            "same with a modification time newer than every source, missing in a read-only package directory; x inputs "
            "= the 267 regression-corpus scripts with their test configuration + N seeded generated scripts of every statement "
            "kind + every rejected / truncated statement template parsed with silent=False (error type and message compared); in a "
            "second process per state the sdp command is the first user of the tables (exit status and stdout compared), and a "
            "selection of scripts (truncated statements with silent=False, rejected statements, corpus scripts; thorough: all) is "
            "parsed by the first parser object of a fresh process per (state, script); relations: table digest == fresh generation, results == valid-cache results, rewritten file == fresh generation, "
            "shipped signature matches => shipped tables equal; the state set is enumerated completely (exhaustive over states, "
            "sampled over inputs); non-trivial = a (state, script) pair where the state forces regeneration or carries wrong "
            "tables and the script yields >= 1 entity; distinct = (state, SHA-1 of script + configuration)")
    budgets = {"quick": 800, "thorough": 20000}
    assumptions = [
        "each state is exercised in a fresh /venv/bin/python process with PYTHONPATH pointing at its private package copy",
        "generation of the table file is deterministic (compared byte for byte between the states that regenerate)",
    ]

    def strategy(self, tier):
        return st.none()

    def evaluate(self, case):
        raise NotImplementedError

    # ------------------------------------------------------------------
    def make_state(self, name, base, fresh_tab, foreign_tab):
        """-> directory whose simple_ddl_parser/ is in cache state `name`"""
        d = os.path.join(base, name)
        shutil.copytree(os.path.join(loader.REPO, "simple_ddl_parser"), os.path.join(d, "simple_ddl_parser"),
                        ignore=shutil.ignore_patterns("__pycache__", "*.pyc", "parser.out"))
        tab = os.path.join(d, "simple_ddl_parser", "parsetab.py")
        if name == "as_found":
            pass
        elif name in ("missing", "read_only_missing"):
            if os.path.exists(tab):
                os.remove(tab)
        elif name == "valid":
            shutil.copyfile(fresh_tab, tab)
        elif name == "stale_signature":
            s = open(fresh_tab).read()
            s2 = re.sub(r"(_lr_signature = ')(.)", lambda m: m.group(1) + ("X" if m.group(2) != "X" else "Y"), s, count=1)
            assert s2 != s
            open(tab, "w").write(s2)
        elif name == "old_tabversion":
            s = open(fresh_tab).read()
            s2 = re.sub(r"_tabversion = '[^']*'", "_tabversion = '3.8'", s, count=1)
            assert s2 != s
            open(tab, "w").write(s2)
        elif name == "corrupt":
            open(tab, "w").write(open(fresh_tab).read()[:2000] + "\n)))) not python\n")
        elif name == "empty_file":
            open(tab, "w").write("")
        elif name in ("foreign_grammar", "foreign_newer"):
            shutil.copyfile(foreign_tab, tab)
            if name == "foreign_newer":
                t = time.time() + 3600
                os.utime(tab, (t, t))
            else:
                t = time.time() - 10 * 365 * 86400
                os.utime(tab, (t, t))
        if name == "read_only_missing":
            os.chmod(os.path.join(d, "simple_ddl_parser"), 0o555)
        return d

    def run_child(self, d, batch_path, mode="batch", optimized=False):
        env = dict(os.environ, PYTHONPATH=d, PYTHONHASHSEED="0", PYTHONDONTWRITEBYTECODE="1")
        return subprocess.Popen([sys.executable] + (["-O"] if optimized else []) + ["-c", CHILD, batch_path, mode], env=env, cwd=d, stdout=subprocess.PIPE, stderr=subprocess.PIPE)

    def collect(self, proc, what):
        so, se = proc.communicate(timeout=3000)
        try:
            return json.loads(so.decode())
        except ValueError:
            raise loader.HarnessError("child for %s produced no JSON: rc=%s stderr=%s" % (what, proc.returncode, se.decode()[-600:]))

    def generated_batch(self, n, seed):
        import hypothesis
        from hypothesis import HealthCheck, given, settings

        batch = []

        @hypothesis.seed(seed * 1000 + 20)
        @settings(max_examples=n, database=None, deadline=None, suppress_health_check=list(HealthCheck), phases=[hypothesis.Phase.generate])
        @given(universe.script(1, 3, unsupported_p=1), gen.layout(max_len=30), st.sampled_from(universe.MODES), st.booleans())
        def draw(blocks, layout, mode, norm):
            batch.append({"ddl": universe.render_blocks(blocks, layout), "ctor": {"normalize_names": norm}, "run": {"output_mode": mode}})

        draw()
        return batch

    def custom_run(self, tier, seed):
        n = int(os.environ.get("SDPV_EXAMPLES", self.budgets[tier]))
        base = os.path.join(loader.scratch_dir(), "c20")
        os.makedirs(base)
        violations = []
        try:
            batch = []
            for it in universe.corpus():
                ctor = {k: v for k, v in it["ctor"].items() if k in ("normalize_names",)}
                batch.append({"ddl": it["ddl"], "ctor": ctor, "run": {k: v for k, v in it["run"].items() if k in ("output_mode", "group_by_type")}})
            batch += self.generated_batch(n, seed)
            # statements the grammar rejects, parsed with silent=False: the error raised (type and message) is part of the result
            from . import c16
            for t in universe.REJECTED + c16.TRUNCATED:
                names = {"a": "col_a", "b": "col_b", "t": "tbl", "s": "sch", "u": "usr", "v": "vw", "f": "fn"}
                batch.append({"ddl": "CREATE TABLE t_ok (a int);\n" + t.format(**names) + "\n", "ctor": {"silent": False}, "run": {}})
                batch.append({"ddl": t.format(**names), "ctor": {"silent": False, "normalize_names": (len(batch) // 2) % 2 == 0}, "run": {},
                              "first": "truncated" if t in c16.TRUNCATED else "rejected"})
            for j, k in enumerate(range(0, len(universe.corpus()), 40)):
                batch[k]["first"] = "corpus"
                batch[k]["ctor"] = dict(batch[k]["ctor"], normalize_names=j % 2 == 0)
            batch_path = os.path.join(base, "batch.json")
            with open(batch_path, "w") as f:
                json.dump(batch, f)
            # ---- step 1: fresh generation (state 'missing') and a foreign grammar's tables
            d_missing = self.make_state("missing", base, None, None)
            d_foreign_src = os.path.join(base, "foreign_src")
            shutil.copytree(os.path.join(loader.REPO, "simple_ddl_parser"), os.path.join(d_foreign_src, "simple_ddl_parser"),
                            ignore=shutil.ignore_patterns("__pycache__", "*.pyc", "parsetab.py"))
            ibm = os.path.join(d_foreign_src, "simple_ddl_parser", "dialects", "ibm.py")
            src = open(ibm).read()
            edited = src.replace('"""expr : expr INDEX IN id"""', '"""expr : expr INDEX IN id id"""')
            if edited == src:
                raise loader.HarnessError("cannot build the foreign grammar: production 'expr : expr INDEX IN id' not found in dialects/ibm.py")
            open(ibm, "w").write(edited)
            empty = os.path.join(base, "empty.json")
            open(empty, "w").write("[]")
            p1, p2 = self.run_child(d_missing, batch_path), self.run_child(d_foreign_src, empty)
            r_missing, r_foreign = self.collect(p1, "missing"), self.collect(p2, "foreign grammar")
            fresh_tab = os.path.join(d_missing, "simple_ddl_parser", "parsetab.py")
            foreign_tab = os.path.join(d_foreign_src, "simple_ddl_parser", "parsetab.py")
            results = {"missing": r_missing}
            if "error" in r_missing or not os.path.exists(fresh_tab):
                violations.append(("regeneration-fails", "with parsetab.py missing the library does not come up / does not rewrite the table file: %s" % (
                    r_missing.get("error") or "no parsetab.py written"), {"state": "missing", "trace": r_missing.get("trace")}))
                fresh_tab_ok = False
            else:
                fresh_tab_ok = True
            if ("error" in r_foreign or not os.path.exists(foreign_tab)) and fresh_tab_ok:
                raise loader.HarnessError("foreign grammar copy did not build: %s" % r_foreign.get("error"))
            # ---- step 2: all other states in parallel
            dirs = {"missing": d_missing}
            procs = {}
            if fresh_tab_ok:
                for s in STATES:
                    if s == "missing":
                        continue
                    dirs[s] = self.make_state(s, base, fresh_tab, foreign_tab)
                    procs[s] = self.run_child(dirs[s], batch_path)
                # the interpreter's -O switch is no licence to trust a cache file of another grammar
                for s in ("foreign_grammar", "stale_signature"):
                    dirs[s + "/python -O"] = self.make_state(s, os.path.join(base, "opt"), fresh_tab, foreign_tab)
                    procs[s + "/python -O"] = self.run_child(dirs[s + "/python -O"], batch_path, optimized=True)
                cli_procs = {}
                cli_path = os.path.join(base, "cli.json")
                with open(cli_path, "w") as f:
                    json.dump([{"ddl": "CREATE TABLE cli_t (id int PRIMARY KEY, v varchar(10));\nCREATE SEQUENCE cli_s START WITH 3;\nSELECT 1;\n"}], f)
                for s in STATES:
                    dd = self.make_state(s, os.path.join(base, "cli"), fresh_tab, foreign_tab)
                    cli_procs[s] = self.run_child(dd, cli_path, "cli")
                for s, p in procs.items():
                    results[s] = self.collect(p, s)
                cli_results = {s: self.collect(p, s + " (cli)") for s, p in cli_procs.items()}
                cref = cli_results.get("valid", {})
                for s, r in sorted(cli_results.items()):
                    if "error" in r:
                        violations.append(("cli-state-fails:" + s, "cache state %r: the sdp command fails with %s" % (s, r["error"]), {"state": s, "entry": "cli", "trace": r.get("trace")}))
                    elif "error" not in cref and (r["cli_exit"], r["cli_stdout_sha1"]) != (cref["cli_exit"], cref["cli_stdout_sha1"]):
                        violations.append(("cli-output-differs:" + s, "cache state %r: `sdp file --no-dump` exits %r and prints %d characters (%r...), with a valid cache %r and %d characters (%r...)" % (
                            s, r["cli_exit"], r["cli_stdout_len"], r["cli_stdout_head"][:120], cref["cli_exit"], cref["cli_stdout_len"], cref["cli_stdout_head"][:120]), {"state": s, "entry": "cli"}))
            else:
                dirs["as_found"] = self.make_state("as_found", base, None, None)
                results["as_found"] = self.collect(self.run_child(dirs["as_found"], batch_path), "as_found")
            # ---- relations
            ref_state = "valid" if "valid" in results and "error" not in results["valid"] else "as_found"
            ref = results[ref_state]
            if "error" in ref:
                raise loader.HarnessError("reference state %s failed: %s\n%s" % (ref_state, ref["error"], ref.get("trace")))
            fresh_digest = r_missing.get("digest")
            fresh_sha = sha1_file(fresh_tab) if fresh_tab_ok else None
            pairs = set()
            evals = 0
            samples = []
            regen_states = {"missing", "stale_signature", "old_tabversion", "corrupt", "foreign_grammar", "foreign_newer", "read_only_missing", "empty_file"}
            for s, r in results.items():
                case = {"state": s}
                if "error" in r:
                    violations.append(("state-fails:" + s, "cache state %r: the library fails with %s while it works with a valid cache\n%s" % (s, r["error"], r.get("trace", "")[-600:]), case))
                    continue
                if fresh_digest and r["digest"] != fresh_digest:
                    violations.append(("tables-in-use-differ:" + s, "cache state %r: the parser runs with tables (digest %s, %d states) that differ from a fresh generation (%s)" % (
                        s, r["digest"][:12], r["n_states"], fresh_digest[:12]), case))
                diffs = [k for k, (a, b) in enumerate(zip(r["results"], ref["results"])) if (a[:2] != b[:2] or (a[0] == "exc" and a[2] != b[2]))]
                evals += len(r["results"])
                for k, a in enumerate(r["results"]):
                    if s.split("/")[0] in regen_states and a[0] == "ok" and a[2]:
                        pairs.add((s, k))
                if diffs:
                    k = diffs[0]
                    violations.append(("results-differ:" + s, "cache state %r: %d of %d scripts give another result than with a valid cache, e.g. %r -> %r vs %r" % (
                        s, len(diffs), len(ref["results"]), batch[k]["ddl"][:300], r["results"][k], ref["results"][k]), dict(case, script=batch[k])))
                if s.split("/")[0] in regen_states and s != "read_only_missing" and fresh_sha:
                    left = sha1_file(os.path.join(dirs[s], "simple_ddl_parser", "parsetab.py"))
                    if left != fresh_sha:
                        violations.append(("rewritten-file-differs:" + s, "cache state %r: parsetab.py left behind (%s) is not the fresh generation (%s)" % (s, left and left[:12], fresh_sha[:12]), case))
                if len(samples) < 6:
                    samples.append({"state": s, "tables_digest": r["digest"][:16], "lalr_states": r["n_states"], "productions": r["n_productions"],
                                    "example_script": batch[len(samples) * 37 % len(batch)]["ddl"][:200]})
            # ---- the first parser object of a process: it is the one that meets the cache state (later ones find what it left)
            if fresh_tab_ok:
                from concurrent.futures import ThreadPoolExecutor

                first_idx = [k for k, it in enumerate(batch) if it.get("first")]
                if tier == "quick":
                    trunc = [k for k in first_idx if batch[k]["first"] == "truncated"]
                    other = [k for k in first_idx if batch[k]["first"] != "truncated"]
                    first_idx = trunc + [other[(seed * 5 + 7 * j) % len(other)] for j in range(5)]

                def first_job(job):
                    st_name, k = job
                    dd = self.make_state(st_name, os.path.join(base, "first", str(k)), fresh_tab, foreign_tab)
                    try:
                        return job, self.collect(self.run_child(dd, batch_path, "first:%d" % k), "%s first:%d" % (st_name, k))
                    finally:
                        os.chmod(os.path.join(dd, "simple_ddl_parser"), 0o755)
                        shutil.rmtree(dd, ignore_errors=True)

                jobs = [(st_name, k) for k in first_idx for st_name in STATES]
                with ThreadPoolExecutor(max_workers=int(os.environ.get("VERIF_WORKERS", "16"))) as ex:
                    first = dict(ex.map(first_job, jobs))
                for (st_name, k), r in sorted(first.items()):
                    evals += 1
                    refr = first[("valid", k)]
                    if "error" in r or "error" in refr:
                        if "error" in r:
                            violations.append(("first-parser-fails:" + st_name, "cache state %r: %s" % (st_name, r["error"]), {"state": st_name, "script": batch[k]}))
                        continue
                    if st_name in regen_states:
                        pairs.add((st_name, "first", k))
                    if r["first"] != refr["first"]:
                        violations.append(("first-parser-result-differs:" + st_name, "cache state %r: the first parser object of the process returns %r for %r, with a valid cache %r" % (
                            st_name, r["first"], batch[k]["ddl"], refr["first"]), {"state": st_name, "script": batch[k], "first_parser": True}))
            # ---- structural relation for the shipped file
            shipped_path = os.path.join(loader.REPO, "simple_ddl_parser", "parsetab.py")
            structural = "no parsetab.py in the working tree"
            if os.path.exists(shipped_path) and fresh_tab_ok:
                shipped, fresh = load_tab(shipped_path), load_tab(fresh_tab)
                if shipped["signature"] == fresh["signature"] and shipped["tabversion"] == fresh["tabversion"]:
                    structural = "signature matches: tables compared"
                    for part in ("action", "goto", "productions"):
                        if shipped[part] != fresh[part]:
                            violations.append(("shipped-tables-differ:" + part, "the working tree's parsetab.py carries the grammar's signature but its %s table differs from a fresh generation" % part,
                                               {"state": "as_found", "part": part}))
                else:
                    structural = "signature of the working tree's parsetab.py does not match the grammar (premise false): it is regenerated at first use"
            self._extra = {"exhaustive": True, "states": len(results), "states_enumerated": sorted(results), "scripts": len(batch),
                           "state_script_pairs": evals, "structural_branch": structural, "fresh_tables_digest": fresh_digest,
                           "reference_state": ref_state}
            return {"evals": evals, "parses": evals, "nontrivial": pairs, "samples": samples, "violations": violations,
                    "examples_requested": n, "shards": len(results)}
        finally:
            for root, ds, _ in os.walk(base):
                for x in ds:
                    try:
                        os.chmod(os.path.join(root, x), 0o755)
                    except OSError:
                        pass
            shutil.rmtree(base, ignore_errors=True)

    def extra_coverage(self, tier):
        return getattr(self, "_extra", {})

    def describe(self, case):
        return case


PROP = C20()
