"""C13 - group_by_type is a lossless, order-preserving regrouping of the flat result.

Oracle: metamorphic, flat run vs grouped run of the same script in the same mode. The kind of every entity is known
from the generating model (cross-checked with the entity's marker key); for corpus scripts it is read from the marker
key by a frozen table kept here.
"""
from hypothesis import strategies as st

from .. import gen, loader, universe
from ..engine import Outcome, Prop, compare
from . import c08

STANDARD = ["tables", "types", "sequences", "domains", "schemas", "ddl_properties"]
OPTIONAL = ["tablespaces", "databases"]
# frozen marker-key table (bucket by the first key that is present)
MARKERS = [("table_name", "tables"), ("sequence_name", "sequences"), ("type_name", "types"), ("domain_name", "domains"),
           ("schema_name", "schemas"), ("tablespace_name", "tablespaces"), ("database_name", "databases"), ("value", "ddl_properties")]
ORPHANS = ["ALTER TABLE undefined_tbl ADD zcol int;", "CREATE INDEX ix_orphan ON undefined_tbl (a);", "CREATE UNIQUE INDEX ix_orphan ON s9.undefined_tbl (a, b);",
           "ALTER TABLE s9.undefined_tbl ADD CONSTRAINT c9 UNIQUE (a);"]
COMMENT_STYLES = ["t_dash", "t_dash_nb", "block1", "multi", "t_block"]


@st.composite
def comment_op(draw, idx):
    style = draw(st.sampled_from(COMMENT_STYLES))
    n = draw(st.integers(2, 4)) if style == "multi" else 1
    roles = [style] if style != "multi" else ["multi_first"] + ["multi_mid"] * (n - 2) + ["multi_last"]
    text = [draw(c08.comment_text(idx, j, r)) for j, r in enumerate(roles)]
    if style in ("t_dash", "t_dash_nb") and draw(st.integers(0, 4)) == 0:
        text = [""]  # a bare '--' at the end of a line: a comment whose text is empty
    return {"style": style, "at": draw(st.integers(0, 400)), "text": text, "close_own_line": draw(st.booleans()), "flush": draw(st.booleans())}


@st.composite
def gen_case(draw, max_blocks):
    blocks = draw(universe.script(0 if draw(st.integers(0, 9)) == 0 else 1, max_blocks, kinds=universe.BLOCK_KINDS + ["decl", "decl", "seq", "set"],
                                  unsupported_p=draw(st.sampled_from([0, 0, 2, 5]))))
    ops = [draw(comment_op(i)) for i in range(draw(st.integers(0, 3)))]
    if draw(st.integers(0, 11)) == 0:
        # an ALTER TABLE / CREATE INDEX whose table the script does not define: both views must agree on it too (today: both raise)
        blocks = blocks + [{"k": "raw", "c": {"family": "orphan", "text": draw(st.sampled_from(ORPHANS))}}]
    # eof: the last line of the script has no line end (file without a trailing newline)
    return {"src": "gen", "blocks": blocks, "layout": draw(gen.layout(max_len=40)), "mode": draw(st.sampled_from(universe.MODES)),
            "norm": draw(st.booleans()), "ops": ops, "eof": draw(st.integers(0, 3)) == 0}


@st.composite
def corpus_case(draw):
    return {"src": "corpus", "item": draw(st.integers(0, len(universe.corpus()) - 1)), "mode": draw(st.sampled_from(universe.MODES)), "norm": draw(st.booleans())}


def marker_kind(e):
    for key, bucket in MARKERS:
        if key in e:
            return bucket
    return None


class C13(Prop):
    id = "C13"
    rule = ("case = generated script of 1..N blocks mixing every entity kind (tables of all flavours, DROP TABLE, LIKE, types, "
            "sequences, domains, schemas, databases, tablespaces, SET properties) in random order, with 0..3 inserted comments (some with "
            "empty text: a bare '--'), with or without a line end after the last statement, in a "
            "drawn output mode (15) and normalize_names setting; or a regression-corpus script; relation: grouped[b] == in-order "
            "sub-list of the flat entities of kind b (kind from the generating model, cross-checked with marker keys), six "
            "standard buckets always present, tablespaces / databases iff present, comments == concatenated comment texts, "
            "nothing else; non-trivial = >= 3 distinct kinds incl. >= 1 optional bucket or comments; distinct = SHA-1 of the case")
    budgets = {"quick": 3000, "thorough": 100000}
    assumptions = [
        "entity kinds of corpus scripts are read from marker keys with the frozen table MARKERS",
        "inserted comments use the styles that are reported in the comments entry (trailing --, /* */, multi-line block)",
    ]

    def strategy(self, tier):
        mb = 5 if tier == "quick" else 9
        return st.one_of(gen_case(mb), gen_case(mb), gen_case(mb), corpus_case())

    def enumerated(self, tier):
        for i in range(len(universe.corpus())):
            yield {"src": "corpus", "item": i, "mode": universe.MODES[i % len(universe.MODES)], "norm": i % 2 == 0}

    def text(self, case):
        if case["src"] == "corpus":
            return universe.corpus()[case["item"]]["ddl"]
        base = universe.render_blocks(case["blocks"], case["layout"])
        if case["ops"]:
            nl = "\r\n" if "\r\n" in base else "\n"
            lines, _, _ = c08.apply_ops(base.split(nl), case["ops"])
            base = nl.join(lines)
        return base.rstrip("\r\n") if case.get("eof") else base

    def describe(self, case):
        return {"ddl": self.text(case), "mode": case["mode"], "normalize_names": case["norm"], "source": case["src"]}

    def same_object(self, ddl, kw, grouped_first):
        ctor, run = loader.split_kwargs(kw)
        try:
            p = loader.make_parser(ddl, **ctor)
            if grouped_first:
                g = p.run(group_by_type=True, **run)
                return p.run(group_by_type=False, **run), g
            f = p.run(group_by_type=False, **run)
            return f, p.run(group_by_type=True, **run)
        except Exception:
            return None

    def evaluate(self, case):
        out = Outcome()
        ddl = self.text(case)
        kw = {"output_mode": case["mode"], "normalize_names": case["norm"]}
        rf = loader.try_parse(ddl, group_by_type=False, **kw)
        rg = loader.try_parse(ddl, group_by_type=True, **kw)
        out.parses += 2
        # the same relation when one parser object produces both views (flat first or grouped first)
        both = self.same_object(ddl, kw, case.get("grouped_first", len(ddl) % 2 == 0))
        out.parses += 2
        if rf[0] == "ok" and rg[0] == "ok" and both is not None and (both[0] != rf[1] or both[1] != rg[1]):
            out.fail("same-object-views", "flat / grouped views taken from one parser object differ from the views of fresh objects\nflat fresh=%r\nflat same =%r\ngrouped fresh=%r\ngrouped same =%r\n%r" % (
                rf[1], both[0], rg[1], both[1], ddl))
        out.label("src:" + case["src"], "mode:" + case["mode"])
        if rf[0] != "ok" or rg[0] != "ok":
            if rf[0] != rg[0] or rf[1] != rg[1]:
                out.fail("exception-differs", "flat %r grouped %r; %r" % (rf[:2] if rf[0] != "ok" else "ok", rg[:2] if rg[0] != "ok" else "ok", ddl))
            return out
        flat, grouped = rf[1], rg[1]
        with compare(out, "shape"):
            if not isinstance(grouped, dict) or not isinstance(flat, list):
                out.fail("not-a-dict", "grouped result is %r" % type(grouped).__name__)
                return out
            ents = [e for e in flat if not (isinstance(e, dict) and set(e) == {"comments"})]
            comments = [c for e in flat if isinstance(e, dict) and set(e) == {"comments"} for c in e["comments"]]
            kinds = None
            if case["src"] == "gen":
                kinds = [k for b in case["blocks"] if b["k"] != "raw" for k in universe.entity_kinds(b)]
                if len(kinds) != len(ents):
                    out.fail("flat-entity-count", "model expects %d entities, flat result has %d; %r" % (len(kinds), len(ents), ddl))
                    return out
                for k, e in zip(kinds, ents):
                    if marker_kind(e) != k:
                        out.fail("entity-kind", "entity %r generated as %s carries marker of %s; %r" % (sorted(e)[:6], k, marker_kind(e), ddl))
                        return out
            else:
                kinds = [marker_kind(e) for e in ents]
                if None in kinds:
                    # an entity whose kind cannot be read from a marker key: it must still be in exactly one bucket, unchanged
                    everything = [x for b, v in grouped.items() if b != "comments" and isinstance(v, list) for x in v]
                    for e in ents:
                        if everything.count(e) != ents.count(e):
                            out.fail("entity-in-no-bucket", "flat entity %r appears %d time(s) in the grouped result (flat: %d); %r" % (
                                e, everything.count(e), ents.count(e), ddl))
                            break
                    return out
            present = set(kinds)
            out.nontrivial = len(present) >= 3 and (bool(present & set(OPTIONAL)) or bool(comments))
            for k in sorted(present):
                out.label("kind:" + k)
            if comments:
                out.label("with_comments")
            if "" in comments:
                out.label("empty_comment_text")
            if case.get("eof"):
                out.label("no_final_newline")
            for b in STANDARD:
                if b not in grouped:
                    out.fail("standard-bucket-missing:" + b, "bucket %r absent; grouped keys %r; %r" % (b, sorted(grouped), ddl))
            for b in OPTIONAL:
                if (b in grouped) != (b in present):
                    out.fail("optional-bucket:" + b, "bucket %r present=%s but such entities present=%s; %r" % (b, b in grouped, b in present, ddl))
            for b in grouped:
                if b not in STANDARD + OPTIONAL + ["comments"]:
                    out.fail("unknown-bucket", "unexpected bucket %r; %r" % (b, ddl))
            for b in STANDARD + OPTIONAL:
                want = [e for e, k in zip(ents, kinds) if k == b]
                got = grouped.get(b, [])
                if got != want:
                    out.fail("bucket-content:" + b, "bucket %r: expected the %d flat entities of that kind in order, got %d (%s); %r" % (
                        b, len(want), len(got), "same set, other order" if sorted(map(repr, got)) == sorted(map(repr, want)) else "different entities", ddl))
            if comments:
                if grouped.get("comments") != comments:
                    out.fail("comments-bucket", "expected %r got %r; %r" % (comments, grouped.get("comments"), ddl))
            elif "comments" in grouped and grouped["comments"]:
                out.fail("comments-bucket", "flat result has no comments, grouped has %r; %r" % (grouped["comments"], ddl))
            total = sum(len(v) for k, v in grouped.items() if k != "comments")
            if total != len(ents):
                out.fail("entity-count", "flat %d entities, grouped %d; %r" % (len(ents), total, ddl))
        return out


PROP = C13()
