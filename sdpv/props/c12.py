"""C12 - successful output always has the documented shape and is JSON-serialisable.

Oracle: validity predicate over the union of all generators and the regression corpus x configurations
(15 output modes x normalize_names x group_by_type x json_dump).
"""
import json

from hypothesis import strategies as st

from .. import gen, loader, universe
from ..engine import Outcome, Prop, compare

COLUMN_KEYS = ["name", "type", "size", "references", "unique", "nullable", "default", "check"]
TABLE_LIST_KEYS = ["checks", "index", "partitioned_by", "columns"]


REDECLARE = [
    "CREATE TABLE {n} (a int);\nCREATE TABLE IF NOT EXISTS {n} (a int, b text);",
    "CREATE TABLE IF NOT EXISTS {n} (a int PRIMARY KEY);\nCREATE TABLE IF NOT EXISTS {n} (a int PRIMARY KEY);\nALTER TABLE {n} ADD c int;",
    "DROP TABLE {n};\nCREATE TABLE IF NOT EXISTS {n} (a int PRIMARY KEY, b varchar(10));",
    "DROP TABLE {s}.{n};\nCREATE TABLE {s}.{n} (a int, PRIMARY KEY (a));\nCREATE INDEX ix_rd ON {s}.{n} (a);",
    "CREATE TABLE {s}.{n} (a int);\nCREATE TABLE {n} (b int);\nCREATE TABLE {s}.{n} (c int);",
    "CREATE TABLE {n} (a int);\nDROP TABLE {n};\nCREATE TABLE {n} (a int, b int UNIQUE);\nALTER TABLE {n} ADD PRIMARY KEY (a);",
    # identifiers outside ASCII (reported as escape sequences, known finding K3 - but consistently so in columns and key lists)
    "CREATE TABLE {n} (stra\u00dfe int, \"\u540d\u524d\" varchar(5), c int, PRIMARY KEY (stra\u00dfe, \"\u540d\u524d\"));",
    "CREATE TABLE {s}.{n} (`pr\u00e9nom` text NOT NULL, id int, CONSTRAINT pk_{n} PRIMARY KEY (id, `pr\u00e9nom`));\nCREATE INDEX ix_rd ON {s}.{n} (`pr\u00e9nom`);",
]


@st.composite
def config(draw):
    return {"output_mode": draw(st.sampled_from(universe.MODES)), "normalize_names": draw(st.booleans()), "group_by_type": draw(st.booleans())}


@st.composite
def gen_case(draw, nconf):
    blocks = draw(universe.script(1, 3))
    if draw(st.integers(0, 11)) == 0:
        # an ALTER TABLE / CREATE INDEX on a table the script does not define: today it raises (no output to validate); if it ever
        # returns, what it returns must have the documented shape as well
        from .c13 import ORPHANS

        blocks = blocks + [{"k": "raw", "c": {"family": "orphan", "text": draw(st.sampled_from(ORPHANS))}}]
    if draw(st.integers(0, 7)) == 0:
        # the same table id declared more than once in one script (re-creation after DROP, IF NOT EXISTS re-runs, same name in
        # two schemas): every entry reported must still have the documented shape
        n, s = draw(gen.plain_ident(min_len=2)), draw(gen.plain_ident(min_len=2))
        text = draw(st.sampled_from(REDECLARE)).replace("{n}", n + "_rd").replace("{s}", s)
        blocks = blocks + [{"k": "raw", "c": {"family": "redeclare", "text": text}}]
    return {"src": "gen", "blocks": blocks, "layout": draw(gen.layout(max_len=40)), "configs": [draw(config()) for _ in range(nconf)]}


@st.composite
def corpus_case(draw, nconf):
    return {"src": "corpus", "item": draw(st.integers(0, len(universe.corpus()) - 1)), "configs": [draw(config()) for _ in range(nconf)]}


def strip_delims(n):
    return n


class C12(Prop):
    id = "C12"
    rule = ("case = generated script of 1..3 blocks of any statement kind (core / constraint / nested-type / dialect-clause / "
            "extended-option tables, ALTER and INDEX histories, DROP, LIKE, sequences, types, domains, schemas, databases, "
            "tablespaces, SET; one script in eight declares the same table id more than once) or a regression-corpus script, each under k drawn configurations of (15 output modes x "
            "normalize_names x group_by_type), json_dump checked for each; thorough sweeps every corpus script over all 60 "
            "configurations; predicate: list of dicts (dict of lists when grouped), table entries carry table_name, schema|dataset, "
            "primary_key (list of str, subset of the column names for generated tables), columns, alter (dict), checks, index, "
            "partitioned_by (lists), tablespace; columns carry the 8 documented keys with bool unique/nullable; json.dumps works "
            "and json_dump=True returns exactly it; non-trivial = a table with constraint / alter / clause in a non-default "
            "configuration; distinct = SHA-1 of the case")
    budgets = {"quick": 2500, "thorough": 40000}
    assumptions = [
        "primary_key subset-of-columns is asserted for generated tables only (corpus DDL may name undeclared columns); DROP TABLE "
        "and LIKE tables have no columns of their own",
        "only successful parses are examined (a script that raises has no output to validate)",
    ]

    def strategy(self, tier):
        k = 3 if tier == "quick" else 6
        return st.one_of(gen_case(k), gen_case(k), gen_case(k), corpus_case(k))

    def enumerated(self, tier):
        n = len(universe.corpus())
        modes = universe.MODES
        if tier == "thorough":
            for i in range(n):
                yield {"src": "corpus", "item": i, "configs": [{"output_mode": m, "normalize_names": nn, "group_by_type": g}
                                                               for m in modes for nn in (False, True) for g in (False, True)]}
        else:
            for i in range(n):
                yield {"src": "corpus", "item": i, "configs": [{"output_mode": modes[(i + j) % len(modes)], "normalize_names": (i + j) % 2 == 0,
                                                               "group_by_type": (i // 2 + j) % 2 == 0} for j in range(3)]}

    def text(self, case):
        if case["src"] == "corpus":
            return universe.corpus()[case["item"]]["ddl"]
        return universe.render_blocks(case["blocks"], case["layout"])

    def describe(self, case):
        return {"ddl": self.text(case), "configs": case["configs"], "source": case["src"]}

    def check_table(self, out, t, cfg, ddl, generated):
        mode = cfg["output_mode"]
        tag = "mode=%s norm=%s group=%s" % (mode, cfg["normalize_names"], cfg["group_by_type"])
        skey = "dataset" if mode == "bigquery" else "schema"
        for k in ["table_name", skey, "primary_key", "columns", "alter", "checks", "index", "partitioned_by", "tablespace"]:
            if k not in t:
                out.fail("table-key-missing:" + k, "%s: table %r lacks %r (keys %r); %r" % (tag, t.get("table_name"), k, sorted(t), ddl))
                return
        if not isinstance(t["table_name"], str):
            out.fail("table-name-type", "%s: table_name %r; %r" % (tag, t["table_name"], ddl))
        if t[skey] is not None and not isinstance(t[skey], str):
            out.fail("schema-type", "%s: %s=%r; %r" % (tag, skey, t[skey], ddl))
        if not isinstance(t["alter"], dict):
            out.fail("alter-type", "%s: alter is %r; %r" % (tag, type(t["alter"]).__name__, ddl))
        for k in TABLE_LIST_KEYS:
            if not isinstance(t[k], list):
                out.fail("list-type:" + k, "%s: %s is %r; %r" % (tag, k, type(t[k]).__name__, ddl))
                return
        pk = t["primary_key"]
        if not isinstance(pk, list) or not all(isinstance(x, str) for x in pk):
            out.fail("primary-key-type", "%s: primary_key=%r; %r" % (tag, pk, ddl))
            return
        names = []
        for c in t["columns"]:
            if not isinstance(c, dict):
                out.fail("column-type", "%s: column entry %r; %r" % (tag, c, ddl))
                return
            for k in COLUMN_KEYS:
                if k not in c:
                    out.fail("column-key-missing:" + k, "%s: column %r lacks %r; %r" % (tag, c.get("name"), k, ddl))
                    return
            if not isinstance(c["unique"], bool) or not isinstance(c["nullable"], bool):
                out.fail("column-bool", "%s: column %r unique=%r nullable=%r; %r" % (tag, c["name"], c["unique"], c["nullable"], ddl))
            if not isinstance(c["name"], str) or not isinstance(c["type"], str):
                out.fail("column-name-type", "%s: column name=%r type=%r; %r" % (tag, c["name"], c["type"], ddl))
            names.append(c["name"])
        if generated and not set(pk) <= set(names):
            out.fail("primary-key-not-columns", "%s: primary_key %r is not a subset of the columns %r; %r" % (tag, pk, names, ddl))

    def again(self, ddl, cfg):
        ctor, run = loader.split_kwargs(cfg)
        try:
            p = loader.make_parser(ddl, **ctor)
            p.run(**run)
            return ("ok", p.run(json_dump=True, **run))
        except Exception as e:
            return ("exc", type(e).__name__, str(e)[:300])

    def evaluate(self, case):
        out = Outcome()
        ddl = self.text(case)
        # primary_key must name declared columns - asserted where the model spells key columns exactly as declared (not for the
        # corpus and not for 're-spelled' tables, whose clauses may name another identifier than the column)
        generated = (case["src"] == "gen" and not any(b["k"] == "rtable" for b in case["blocks"])) or \
            (case["src"] == "corpus" and bool(universe.corpus()[case["item"]].get("wellformed")))  # texts written for this harness: keys name declared columns
        out.label("src:" + case["src"])
        if case["src"] == "gen" and any(b["k"] == "raw" and b["c"].get("family") == "redeclare" for b in case["blocks"]):
            out.label("table_declared_twice")
        rich = generated and case["src"] == "gen" and any(b["k"] in ("ctable", "alter", "dtable", "xtable") for b in case["blocks"])
        for cfg in case["configs"]:
            r = loader.try_parse(ddl, **cfg)
            out.parses += 1
            out.label("mode:" + cfg["output_mode"])
            if r[0] != "ok":
                if case["src"] == "gen" and not any(b["k"] == "raw" and b["c"].get("family") == "orphan" for b in case["blocks"]):
                    out.fail("exception", "%s: %s under %r; %r" % (r[1], r[2], cfg, ddl))
                continue
            res = r[1]
            if rich and (cfg["output_mode"] != "sql" or cfg["normalize_names"] or cfg["group_by_type"]):
                out.nontrivial = True
            if not generated and (cfg["output_mode"] != "sql" or cfg["group_by_type"]):
                out.nontrivial = True
            with compare(out, "shape"):
                if cfg["group_by_type"]:
                    if not isinstance(res, dict) or not all(isinstance(k, str) and isinstance(v, list) for k, v in res.items()):
                        out.fail("grouped-shape", "grouped result is not a dict of lists: %r; %r" % (type(res).__name__, ddl))
                        continue
                    ents = [e for k, v in res.items() if k != "comments" for e in v]
                else:
                    if not isinstance(res, list):
                        out.fail("flat-shape", "flat result is %r; %r" % (type(res).__name__, ddl))
                        continue
                    ents = res
                for e in ents:
                    if not isinstance(e, dict):
                        out.fail("entity-type", "entity %r is not a dict; %r" % (e, ddl))
                        continue
                    if "table_name" in e:
                        self.check_table(out, e, cfg, ddl, generated)
                try:
                    enc = json.dumps(res)
                except (TypeError, ValueError) as ex:
                    out.fail("not-json-serialisable", "%s under %r; %r" % (ex, cfg, ddl))
                    continue
                # same parser object, asked again with json_dump=True (and a fresh object when that differs)
                rj = self.again(ddl, cfg)
                out.parses += 1
                if rj[0] != "ok" or rj[1] != enc:
                    rj2 = loader.try_parse(ddl, json_dump=True, **cfg)
                    if rj2[0] == "ok" and rj2[1] == enc:
                        out.fail("json-dump-on-same-object", "run(**cfg) then run(json_dump=True, **cfg) on one object returns %r, a fresh object the JSON text; cfg %r; %r" % (
                            str(rj[1])[:120], cfg, ddl))
                        continue
                if rj[0] != "ok":
                    out.fail("json-dump-raises", "%s: %s under %r; %r" % (rj[1], rj[2], cfg, ddl))
                elif rj[1] != enc:
                    out.fail("json-dump-differs", "json_dump=True returns %r..., json.dumps(result) is %r...; %r" % (str(rj[1])[:120], enc[:120], ddl))
                elif json.loads(enc) != json.loads(json.dumps(json.loads(enc))):
                    out.fail("json-roundtrip", "unstable JSON; %r" % ddl)
        return out


PROP = C12()
