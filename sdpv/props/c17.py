"""C17 - CREATE SEQUENCE options are reported with exact values, in any order.

Oracle: reference model. The case lists the written options; the model predicts the exact entity
dict ({schema, sequence_name} + exactly one key per option). Neighbouring tables (whose column names
are the sequence keywords) must equal their stand-alone parse.
"""
import itertools

from hypothesis import strategies as st

from .. import gen, loader
from ..engine import Outcome, Prop, compare
from ..render import END, I, K, N, render_script

GROUPS = [
    ("increment", "increment_by"),
    ("start", "start_with"),
    ("minvalue", "no_minvalue"),
    ("maxvalue", "no_maxvalue"),
    ("cache_n", "cache"),
    ("order", "noorder"),
]
NEEDS_VALUE = {"increment", "increment_by", "start", "start_with", "minvalue", "maxvalue", "cache_n"}

SPECIAL_INTS = [0, 1, -1, 2, 5, 10, -10, 100, 2**31 - 1, 2**31, -(2**31), 2**32, 2**63 - 1, -(2**63), 2**63,
                12345678901234567890, -99999999999999999999, 9223372036854775807]

KW_COLS = ["increment", "start", "cache", "minvalue", "maxvalue", "no", "order", "noorder", "Increment", "START"]
TABLE_BEFORE = "CREATE TABLE t_before (a int, b varchar(10) NOT NULL);\n"
SET_BEFORE = "SET search_path = sales;\n"
TABLE_AFTER = "CREATE TABLE t_after (%s);\n" % ", ".join("%s int" % c for c in KW_COLS[:8])


def opt_tokens(o):
    k = o[0]
    v = o[1] if len(o) > 1 else None
    if k == "increment":
        return K("INCREMENT") + [N(v)]
    if k == "increment_by":
        return K("INCREMENT", "BY") + [N(v)]
    if k == "start":
        return K("START") + [N(v)]
    if k == "start_with":
        return K("START", "WITH") + [N(v)]
    if k == "minvalue":
        return K("MINVALUE") + [N(v)]
    if k == "maxvalue":
        return K("MAXVALUE") + [N(v)]
    if k == "no_minvalue":
        return K("NO", "MINVALUE")
    if k == "no_maxvalue":
        return K("NO", "MAXVALUE")
    if k == "cache_n":
        return K("CACHE") + [N(v)]
    if k == "cache":
        return K("CACHE")
    if k == "order":
        return K("ORDER")
    if k == "noorder":
        return K("NOORDER")
    raise ValueError(k)


def opt_expect(o):
    k = o[0]
    v = o[1] if len(o) > 1 else None
    return {
        "increment": {"increment": v}, "increment_by": {"increment_by": v}, "start": {"start": v},
        "start_with": {"start_with": v}, "minvalue": {"minvalue": v}, "maxvalue": {"maxvalue": v},
        "no_minvalue": {"minvalue": False}, "no_maxvalue": {"maxvalue": False}, "cache_n": {"cache": v},
        "cache": {"cache": True}, "order": {"order": True}, "noorder": {"noorder": True},
    }[k]


def seq_tokens(seq):
    toks = K("CREATE", "SEQUENCE")
    toks.append(I((seq["schema"] + "." if seq["schema"] else "") + seq["name"]))
    for o in seq["opts"]:
        toks += opt_tokens(o)
    toks.append(END)
    return toks


def seq_expect(seq):
    e = {"schema": seq["schema"], "sequence_name": seq["name"]}
    for o in seq["opts"]:
        e.update(opt_expect(o))
    return e


int_values = st.one_of(st.sampled_from(SPECIAL_INTS), st.integers(-(10**6), 10**6), st.integers(-(2**64), 2**64))


SEQ_STYLES = gen.STYLES


@st.composite
def sequence(draw):
    chosen = []
    for g in GROUPS:
        c = draw(st.integers(0, 2))
        if c:
            chosen.append(g[c - 1])
    chosen = list(draw(st.permutations(chosen))) if len(chosen) > 1 else chosen
    opts = []
    for k in chosen:
        if k in NEEDS_VALUE:
            v = draw(int_values)
            if k == "cache_n":
                v = abs(v)
            opts.append([k, v])
        else:
            opts.append([k])
    sch = draw(st.one_of(st.none(), gen.ident(styles=SEQ_STYLES)))
    return {"schema": sch, "name": draw(gen.ident(styles=SEQ_STYLES)), "opts": opts}


@st.composite
def case_strategy(draw):
    seqs = draw(st.lists(sequence(), min_size=1, max_size=3))
    # context bits: 1 table before, 2 table after, 4 a one-line SET statement directly in front of the first sequence
    return {"seqs": seqs, "context": draw(st.integers(0, 7)), "layout": draw(gen.layout())}


class C17(Prop):
    id = "C17"
    rule = ("case = 1..3 CREATE SEQUENCE statements (option subset x order x integer values x keyword case / layout x "
            "schema/name quoting), alone or between two tables whose column names are the sequence keywords; "
            "non-trivial = some sequence has >= 3 options including a negative value or one >= 2^31; "
            "distinct = SHA-1 of the case")
    budgets = {"quick": 9000, "thorough": 70000}
    assumptions = ["CACHE values are generated non-negative", "sequence names are not keyword-shaped (C06 covers what is claimed there)"]

    def strategy(self, tier):
        return case_strategy()

    def enumerated(self, tier):
        # every subset of the 3^6 choices in a fixed order; thorough: all orders of subsets of <= 4 options
        vals = {"increment": 2, "increment_by": -3, "start": 2**31, "start_with": -(2**63), "minvalue": -7,
                "maxvalue": 2**63 - 1, "cache_n": 20}
        for choice in itertools.product(range(3), repeat=6):
            keys = [g[c - 1] for g, c in zip(GROUPS, choice) if c]
            orders = [keys]
            if tier == "thorough" and 1 < len(keys) <= 4:
                orders = itertools.permutations(keys)
            for order in orders:
                opts = [[k, vals[k]] if k in NEEDS_VALUE else [k] for k in order]
                yield {"seqs": [{"schema": "s", "name": "sq", "opts": opts}], "context": 3, "layout": None}
        # every realistic identifier (names that start / end with a grammar keyword, words of unsupported statements) as an
        # unqualified sequence name and as a schema, in three letter cases
        for i, w in enumerate(gen.REALISTIC_NAMES):
            for form in (w, w.capitalize(), w.upper()):
                if form.startswith("ARRAY"):
                    continue  # the lexer types every word that starts with upper-case ARRAY as the ARRAY constructor
                opts = [["start", i], ["cache_n", 3]] if i % 2 else [["increment_by", i + 1], ["noorder"]]
                yield {"seqs": [{"schema": None, "name": form, "opts": opts}], "context": i % 4, "layout": None}
                yield {"seqs": [{"schema": form, "name": "sq", "opts": opts}], "context": i % 4, "layout": None}

        # the option words themselves as the name part of a schema-qualified sequence (app.cache, sales.order): a word after a dot is a name
        for i, w in enumerate(["increment", "start", "cache", "minvalue", "maxvalue", "no", "by", "with", "order", "noorder", "cycle", "sequence"]):
            for form in (w, w.capitalize(), w.upper()):
                opts = [["start", i], ["cache_n", 3]] if i % 2 else [["increment_by", i + 1], ["noorder"]]
                yield {"seqs": [{"schema": "app", "name": form, "opts": opts}], "context": i % 4, "layout": None}

    def fixed_cases(self):
        return [
            ("readme", {"seqs": [{"schema": "dev", "name": "incremental_ids", "opts": [["increment", 10], ["start", 0], ["minvalue", 0], ["maxvalue", 9223372036854775807], ["cache_n", 1]]}], "context": 0, "layout": None}),
            ("lower_all", {"seqs": [{"schema": None, "name": '"Q s"', "opts": [["no_maxvalue"], ["start_with", -5], ["cache"], ["noorder"], ["increment_by", 2**64]]}], "context": 3, "layout": {"sep": [3, 1], "case": [1], "crlf": True, "tail": 1}}),
        ]

    _refs = {}

    def reference(self, ddl):
        """stand-alone parse of a constant neighbour statement (computed once per process)"""
        if ddl not in self._refs:
            self._refs[ddl] = loader.parse(ddl)
        import copy

        return copy.deepcopy(self._refs[ddl])

    def build(self, case):
        stmts = []
        if case["context"] & 1:
            stmts.append(TABLE_BEFORE)
        if case["context"] & 4:
            stmts.append(SET_BEFORE)
        for s in case["seqs"]:
            stmts.append(seq_tokens(s))
        if case["context"] & 2:
            stmts.append(TABLE_AFTER)
        return render_script(stmts, case["layout"])

    def describe(self, case):
        return {"ddl": self.build(case), "expected_sequences": [seq_expect(s) for s in case["seqs"]]}

    def evaluate(self, case):
        out = Outcome()
        ddl = self.build(case)
        exp = [seq_expect(s) for s in case["seqs"]]
        big = any(len(s["opts"]) >= 3 and any(len(o) > 1 and (o[1] < 0 or o[1] >= 2**31) for o in s["opts"]) for s in case["seqs"])
        out.nontrivial = big
        out.label("seqs=%d" % len(case["seqs"]), "context=%d" % case["context"], "layout=%s" % ("drawn" if case["layout"] else "canonical"))
        for s in case["seqs"]:
            out.label("nopts=%d" % len(s["opts"]))
            for o in s["opts"]:
                out.label("opt:" + o[0])
        r = loader.try_parse(ddl)
        out.parses += 1
        if r[0] != "ok":
            out.fail("exception:" + r[1], "%s on %r" % (r[2], ddl))
            return out
        res = r[1]
        with compare(out, "result"):
            n_before = (1 if case["context"] & 1 else 0) + (1 if case["context"] & 4 else 0)
            if case["context"] & 4 and (len(res) < n_before or res[n_before - 1] != {"name": "search_path", "value": "sales"}):
                out.fail("neighbour-set", "SET statement in front of the sequence reported as %r; %r" % (res[:n_before], ddl))
                return out
            n_after = 1 if case["context"] & 2 else 0
            if len(res) != len(exp) + n_before + n_after:
                out.fail("entity-count", "expected %d entities, got %d: %r" % (len(exp) + n_before + n_after, len(res), ddl))
                return out
            for e, got in zip(exp, res[n_before:n_before + len(exp)]):
                if got != e:
                    keys = sorted(set(k for k in set(e) | set(got) if e.get(k, "<absent>") != got.get(k, "<absent>") or type(e.get(k)) != type(got.get(k))))
                    out.fail("sequence-entity", "keys %s: expected %r got %r ddl=%r" % (",".join(keys), e, got, ddl))
                else:
                    for k in e:
                        if type(e[k]) is not type(got[k]):
                            out.fail("sequence-value-type", "expected %r got %r" % (e[k], got[k]))
            if case["context"] & 1:
                ref = self.reference(TABLE_BEFORE)
                if res[0] != ref[0]:
                    out.fail("neighbour-before", "table before the sequence changed: %r" % (res[0],))
            if n_after:
                ref = self.reference(TABLE_AFTER)
                if res[-1] != ref[0]:
                    out.fail("neighbour-after", "table after the sequence changed: %r" % (res[-1],))
                if [c["name"] for c in res[-1]["columns"]] != KW_COLS[:8]:
                    out.fail("neighbour-after-columns", "%r" % [c["name"] for c in res[-1]["columns"]])
            if len(ddl) % 3 == 0:
                # option values are Python ints of any magnitude: the JSON view must carry the same numbers
                import json

                rj = loader.try_parse(ddl, json_dump=True)
                out.parses += 1
                out.label("json_view")
                if rj[0] != "ok":
                    out.fail("json-view-raises", "%s: %s; %r" % (rj[1], rj[2], ddl))
                elif json.loads(rj[1]) != json.loads(json.dumps(res)):
                    out.fail("json-view-differs", "run(json_dump=True) decodes to %r, run() returned %r; %r" % (json.loads(rj[1])[n_before:n_before + len(exp)], res[n_before:n_before + len(exp)], ddl))
        return out


PROP = C17()
