"""C05 - parsing is invariant under keyword case, whitespace and line layout.

Oracle: metamorphic. (a) model statements (token roles known): the canonical rendering and k drawn re-renderings
(separator per token gap x spelling per keyword x CRLF x blank lines) must parse to equal results. (b) the regression
corpus (token roles unknown): whitespace-only re-layouts computed by a conservative scanner that never touches
quoted text, never creates or removes a gap, and never moves a statement-level word to / from a line start.
"""
import re

from hypothesis import strategies as st

from .. import gen, loader, universe
from ..engine import Outcome, Prop
from ..render import STATEMENT_WORDS, layout_differences, render_parts, render_script

# statement kinds whose keywords may be re-cased (the property names CREATE TABLE / ALTER TABLE / CREATE INDEX /
# CREATE SEQUENCE); the other kinds are only re-laid-out
CASE_KINDS = {"tables", "ctable", "alter", "typed", "seq", "like", "dtable", "xtable"}
KINDS = ["tables", "ctable", "alter", "typed", "seq", "decl", "drop", "like", "set", "dtable", "xtable"]
NOTERM_KINDS = ["tables", "ctable", "alter", "typed", "seq", "drop", "like", "dtable", "xtable", "tables", "alter"]


@st.composite
def drawn_layout(draw, max_len=50):
    sep = draw(st.lists(st.integers(0, 11), min_size=1, max_size=max_len))
    case = draw(st.lists(st.integers(0, 40), min_size=0, max_size=max_len))
    return {"sep": sep, "case": case, "crlf": draw(st.integers(0, 3)) == 0, "tail": draw(st.integers(0, 255))}


@st.composite
def model_case(draw, k):
    # one case in five: a script of >= 2 statements written without ';' between them (the parser then finds the statement starts
    # itself: a line starting with a statement-level word while all parentheses are closed) - layout must not matter there either
    noterm = draw(st.integers(0, 4)) == 0
    blocks = draw(universe.script(2, 3, kinds=NOTERM_KINDS)) if noterm else draw(universe.script(1, 2, kinds=KINDS))
    # the relation must hold in every output mode (some attributes, e.g. an index's clustered flag, are only kept by one dialect)
    mode = draw(st.sampled_from(["sql", "sql"] + universe.MODES))
    if any(b["k"] == "alter" and any(op.get("clustered") for op in b["c"]["ops"]) for b in blocks) and draw(st.booleans()):
        mode = "mssql"  # the only mode that reports an index's clustered flag
    return {"src": "gen", "blocks": blocks, "layouts": [draw(drawn_layout()) for _ in range(k)], "mode": mode, "noterm": noterm}


def build(ss, layout, noterm=False, stats=None):
    if not noterm:
        return render_script(ss, layout, stats)
    ss = [[t for t in s if t[1] != "E"] if i < len(ss) - 1 and not isinstance(s, str) else s for i, s in enumerate(ss)]
    parts = render_parts(ss, layout, stats)
    # known finding K23: without ';' the first keyword of a statement must not stand alone on its line
    return "".join(re.sub(r"^(\w+)[ \t]*\r?\n\s*", r"\1 ", p) for p in parts)


@st.composite
def corpus_case(draw):
    n = len(universe.corpus())
    return {"src": "corpus", "item": draw(st.integers(0, n - 1)),
            "choices": draw(st.lists(st.integers(0, 9), min_size=1, max_size=60)), "crlf": draw(st.integers(0, 3)) == 0}


# ------------------------------------------------------------------ whitespace-only re-layout of arbitrary DDL text

_ATOM = re.compile(r"""'(?:[^'\\]|\\.|'')*'|"[^"\n]*"|`[^`\n]*`|\[[^\]\n]*\]|\s+|[^\s'"`\[]+|.""", re.S)
_STMT = re.compile(r"(?:%s)\b" % "|".join(STATEMENT_WORDS), re.I)
_K5 = re.compile(r"\w*['\\]*\w*'")
_COMMENTISH = re.compile(r"--|#|/\*|\*/")
SAME_LINE = [" ", "  ", "\t", " \t ", "   ", None, None]  # None -> line break + indent
BREAKS = ["\n", "\n\n", "\n  ", "\n\t", "\n    ", None, None]  # None -> join the lines with one blank


def relayout(text, choices, crlf, no_carve=False):
    """-> (new text, stats) ; stats: gaps changed, breaks inserted, breaks removed"""
    atoms = _ATOM.findall(text)
    out = []
    stats = {"changed": 0, "inserted": 0, "removed": 0}
    ci = 0
    first_of_line = None  # first token of the current source line
    for i, a in enumerate(atoms):
        if not a.isspace():
            if first_of_line is None:
                first_of_line = a
        elif "\n" in a:
            first_of_line = None
        if not a.isspace() or i == 0 or i == len(atoms) - 1:
            out.append(a)
            continue
        in_set_line = first_of_line is not None and first_of_line.upper() == "SET" and not no_carve  # K19
        prev, nxt = atoms[i - 1], atoms[i + 1]
        rest = "".join(atoms[i + 1:i + 4])
        ch = choices[ci % len(choices)]
        ci += 1
        line_start_sensitive = bool(_STMT.match(nxt)) or bool(_COMMENTISH.match(nxt))
        before_literal = bool(_K5.match(rest))
        if "\n" not in a:
            new = SAME_LINE[ch % len(SAME_LINE)]
            if new is None:
                # K23: no break directly after a statement-level word (a lone CREATE / ALTER on its line is not recognised
                # as a statement start when the previous statement has no ';')
                after_stmt_word = bool(_STMT.fullmatch(prev)) and not no_carve
                new = a if (line_start_sensitive or before_literal or prev.endswith(";") or after_stmt_word or in_set_line) else "\n  "
                if new != a:
                    stats["inserted"] += 1
            elif "\t" in new and before_literal:
                new = a
        else:
            new = BREAKS[ch % len(BREAKS)]
            if new is None:
                new = a if (line_start_sensitive or prev.endswith(";") or prev.upper() == "GO") else " "
                if new != a:
                    stats["removed"] += 1
            elif before_literal and new.endswith("\n"):
                new = a  # K5: a line break directly in front of a literal - leave the gap alone
        if new != a:
            stats["changed"] += 1
        out.append(new)
    res = "".join(out)
    if crlf:
        res = res.replace("\r\n", "\n").replace("\n", "\r\n")
    return res, stats


def _stmt_word_inside_parentheses(d):
    depth = 0
    for line in d.split("\n"):
        if depth > 0 and _STMT.match(line.strip()):
            return True
        depth += line.count("(") - line.count(")")
    return False


def corpus_ok(item):
    d = item["ddl"]
    if _stmt_word_inside_parentheses(d):
        return False  # the property's precondition does not hold for this text (a column named create / alter_date ... starts a line)
    # comments are line-oriented by nature (a '--' comment ends at the line end): not re-laid-out here (C08 covers them)
    return not _COMMENTISH.search(d) and "\\'" not in d and "input.regex" not in d and not re.search(r"[^\x00-\x7f]", d)


class C05(Prop):
    id = "C05"
    rule = ("case = (a) 1..2 statement blocks of every kind of the model generators (core tables, constraint tables, tables + "
            "ALTER/INDEX history, nested-type tables, sequences, TYPE/DOMAIN/SCHEMA/DATABASE/TABLESPACE, DROP TABLE, LIKE, SET) "
            "rendered canonically and k=4 (thorough 6) times with a drawn layout: per token gap one of 12 separators (blanks, tabs, "
            "line breaks with/without indent, blank lines, nothing next to , ( )), per keyword one of upper/lower/capitalised/"
            "per-letter patterns, CRLF, blank lines between statements; or (b) a regression-corpus script re-laid-out "
            "whitespace-only (gap-preserving scanner); relation: every re-rendering parses to the canonical result; "
            "non-trivial = a re-rendering differing from canonical in >= 3 gaps incl. >= 1 line break inside a statement and "
            ">= 1 glued separator, or in >= 2 keyword spellings (corpus: >= 3 gaps changed incl. a line break inserted or "
            "removed); distinct = SHA-1 of the case")
    budgets = {"quick": 2500, "thorough": 80000}
    assumptions = [
        "the property's precondition is enforced by construction: no line starts with CREATE/ALTER/DROP/SET/GO/USE/INSERT/GRANT/DELETE "
        "unless it starts a statement; every statement ends with ';' at a line end",
        "gaps directly in front of a quoted literal are never a line break, a tab or empty (known findings K5, K6; coerced and counted)",
        "keywords of TYPE/DOMAIN/SCHEMA/DATABASE/TABLESPACE/DROP/SET statements are not re-cased (the property names CREATE TABLE, "
        "ALTER TABLE, CREATE INDEX, CREATE SEQUENCE); SET statements stay on one line (known finding K19)",
        "corpus scripts containing comment markers, backslash-quotes or input.regex are skipped for this relation and counted",
    ]

    def strategy(self, tier):
        k = 4 if tier == "quick" else 6
        return st.one_of(model_case(k), model_case(k), model_case(k), corpus_case())

    def enumerated(self, tier):
        # deterministic sweep: every corpus script x fixed choice vectors (every gap the same way, and mixed)
        vectors = [[0], [1], [2], [3], [4], [5], [6], [5, 0, 6, 1, 2], [6, 5], [3, 5, 4, 6, 0, 1]]
        for i in range(len(universe.corpus())):
            for j, v in enumerate(vectors):
                yield {"src": "corpus", "item": i, "choices": v, "crlf": j % 4 == 3}

    # ---- (a)
    def stmts(self, case):
        """-> (statements, statements with un-recasable keywords turned into value words)"""
        out = []
        for i, b in enumerate(case["blocks"]):
            ss = universe.statements(b, i, set_tokens=bool(case.get("_no_carve")))
            if b["k"] == "set":
                pass  # K19: one line, verbatim (tokens only in the replay of K19)
            elif b["k"] not in CASE_KINDS or (b["k"] == "decl"):
                ss = [[(t, "V" if r == "K" else r) for t, r in s] for s in ss]
            out.extend(ss)
        return out

    def describe(self, case):
        if case["src"] == "corpus":
            it = universe.corpus()[case["item"]]
            return {"corpus_item": it["src"], "relayout": relayout(it["ddl"], case["choices"], case["crlf"], case.get("_no_carve"))[0]}
        ss = self.stmts(case)
        return {"canonical": build(ss, None, case.get("noterm")), "relayout": build(ss, case["layouts"][0], case.get("noterm"))}

    def evaluate(self, case):
        if case["src"] == "corpus":
            return self.evaluate_corpus(case)
        out = Outcome()
        ss = self.stmts(case)
        noterm = bool(case.get("noterm"))
        canon = build(ss, None, noterm)
        mode = case.get("mode", "sql")
        out.label("mode:" + mode, "terminated=%s" % (not noterm))
        r0 = loader.try_parse(canon, output_mode=mode)
        out.parses += 1
        if r0[0] != "ok":
            out.fail("canonical-exception", "%s: %s on %r" % (r0[1], r0[2], canon))
            return out
        for b in case["blocks"]:
            out.label("kind:" + b["k"])
        for lay in case["layouts"]:
            stats = {}
            text = build(ss, lay, noterm, stats)
            if stats.get("K5K6_coerced"):
                out.label("K5K6_gap_coerced")
            toks = [s for s in ss if not isinstance(s, str)]
            d = layout_differences(toks, lay) if toks else {"gaps": 0, "kw": 0, "breaks": 0, "glued": 0}
            if (d["gaps"] >= 3 and d["breaks"] >= 1 and d["glued"] >= 1) or d["kw"] >= 2:
                out.nontrivial = True
            if lay.get("crlf"):
                out.label("crlf")
            r = loader.try_parse(text, output_mode=mode)
            out.parses += 1
            if r[0] != "ok":
                out.fail("relayout-exception", "%s: %s\ncanonical=%r\nrelayout =%r" % (r[1], r[2], canon, text))
            elif r[1] != r0[1]:
                kwonly = build(ss, dict(lay, sep=[]), noterm) if lay.get("case") else None
                which = "layout"
                if kwonly is not None:
                    rk = loader.try_parse(kwonly, output_mode=mode)
                    out.parses += 1
                    if rk[0] != "ok" or rk[1] != r0[1]:
                        which = "keyword-case"
                out.fail("relayout-differs:" + which, "mode=%s canonical=%r\nrelayout =%r\ncanonical result=%r\nrelayout result =%r" % (mode, canon, text, r0[1], r[1]))
        return out

    # ---- (b)
    def evaluate_corpus(self, case):
        out = Outcome()
        it = universe.corpus()[case["item"]]
        if not corpus_ok(it) and not case.get("_no_carve"):
            out.excluded = "corpus-item-with-comments-or-known-finding"
            return out
        kw = dict(it["ctor"], **it["run"])
        kw.pop("debug", None)
        text, stats = relayout(it["ddl"], case["choices"], case["crlf"], case.get("_no_carve"))
        out.label("corpus")
        out.nontrivial = stats["changed"] >= 3 and (stats["inserted"] + stats["removed"]) >= 1
        r0 = loader.try_parse(it["ddl"], **kw)
        r1 = loader.try_parse(text, **kw)
        out.parses += 2
        if r0[0] != "ok":
            if r1[0] == "ok" or r1[1] != r0[1]:
                out.fail("corpus-exception-differs", "%s: original %r relayout %r" % (it["src"], r0[1:], r1[1:] if r1[0] != "ok" else "ok"))
            return out
        if r1[0] != "ok":
            out.fail("corpus-relayout-exception", "%s: %s: %s\noriginal=%r\nrelayout=%r" % (it["src"], r1[1], r1[2], it["ddl"], text))
        elif r1[1] != r0[1]:
            out.fail("corpus-relayout-differs", "%s\noriginal=%r\nrelayout=%r" % (it["src"], it["ddl"], text))
        return out


PROP = C05()
