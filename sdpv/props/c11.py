"""C11 - dialect clauses are captured under their key, orthogonal to the table body.

Oracle: reference model. A clause catalogue (parametrised clause forms of the ten dialects named by the property) knows,
for every clause instance, its tokens, its documented key, its value and its placement:
  top    - top level in the owning dialect's mode, under table_properties in the default mode
  props  - under table_properties in both
  common - a common top-level field in both (comment, tablespace, partitioned_by, partition_by)
Placement and value shapes are frozen here from the pinned tree + README (not read from the code at run time).
A random table body gets a random subset of compatible clauses in random order; the result must carry exactly the
expected keys/values, nothing may be overwritten, and everything else must equal the clause-free parse.
"""
from hypothesis import strategies as st

from .. import gen, loader
from ..engine import Outcome, Prop, compare
from ..render import COMMA, END, EQ, I, K, L, LP, N, RP, T, V, plist, render_script

SEP_LITS = ["'|'", "';'", "':'", "'#'", "'@'", "'~'", "'^'", "'!'", "'\\001'"[:0] or "'&'"]
FORMATS = ["PARQUET", "ORC", "TEXTFILE", "AVRO", "parquet", "SEQUENCEFILE", "RCFILE"]
WORDS = ["InnoDB", "MyISAM", "utf8", "utf8mb4", "latin1", "parquet", "CSV", "delta", "json", "orc"]


def _name():
    return gen.plain_ident(min_len=2, max_len=7)


def _dqlit():
    """a double-quoted value as MySQL / BigQuery scripts write them, possibly holding an apostrophe"""
    return st.tuples(st.sampled_from(["user", "it", "x1", "Orders", "a b"]), st.sampled_from(["'s data", " table", "", "'", " o'clock x"])).map(lambda t: '"%s%s"' % t)


def _kwname():
    kws = [k for k in gen.GRAMMAR_KEYWORDS if k not in gen.C06_EXCLUDED]
    return st.tuples(st.sampled_from(kws), st.integers(0, 2)).map(lambda t: [t[0], t[0].lower(), t[0].capitalize()][t[1]])


def _lit():
    return gen.safe_literal(max_size=8).filter(lambda s: "=" not in s and "''" not in s)


# ------------------------------------------------------------------ catalogue
# id -> (dialect, group, strategy of args)   ; group: clauses of one group are mutually exclusive

def _args_strategies():
    S = {}
    S["hql.stored_as"] = ("hql", "stored", st.fixed_dictionaries({"fmt": st.sampled_from(FORMATS)}))
    S["hql.stored_as_io"] = ("hql", "stored", st.fixed_dictionaries({"inp": _lit(), "out": _lit()}))
    S["hql.location"] = ("hql", "location", st.fixed_dictionaries({"path": _lit()}))
    S["hql.row_format_delimited"] = ("hql", "rowformat", st.fixed_dictionaries({
        "fields": st.one_of(st.none(), st.sampled_from(SEP_LITS)), "coll": st.one_of(st.none(), st.sampled_from(SEP_LITS)),
        "mapk": st.one_of(st.none(), st.sampled_from(SEP_LITS)), "lines": st.one_of(st.none(), st.sampled_from(SEP_LITS))}))
    S["hql.row_format_serde"] = ("hql", "rowformat", st.fixed_dictionaries({
        "cls": _lit(), "props": st.lists(st.tuples(_lit(), _lit()), min_size=0, max_size=3, unique_by=lambda kv: kv[0])}))
    S["hql.tblproperties"] = ("hql", "tblprops", st.fixed_dictionaries({
        "props": st.lists(st.tuples(_lit(), _lit()), min_size=1, max_size=3, unique_by=lambda kv: kv[0])}))
    S["hql.partitioned_by"] = ("hql", "partitioned", st.fixed_dictionaries({
        "cols": st.lists(st.tuples(st.one_of(_name(), _name(), _kwname()), st.sampled_from(["string", "int", "date", "STRING", "bigint"])), min_size=1, max_size=3, unique_by=lambda c: c[0].lower()),
        # per partition column: nothing | a size (the type becomes varchar) | an inline COMMENT
        "extra": st.lists(st.one_of(st.none(), st.none(), st.tuples(st.just("size"), st.integers(1, 255)), st.tuples(st.just("comment"), _lit())), min_size=3, max_size=3)}))
    S["hql.clustered_by"] = ("hql", "clustered", st.fixed_dictionaries({"cols": st.integers(1, 2), "n": st.integers(1, 256)}))
    S["hql.comment"] = ("hql", "comment", st.fixed_dictionaries({"text": _lit()}))
    S["hql.skewed_by"] = ("hql", "skewed", st.fixed_dictionaries({"on": st.lists(st.integers(0, 99), min_size=1, max_size=3)}))
    S["mysql.engine"] = ("mysql", "engine", st.fixed_dictionaries({"v": st.sampled_from(WORDS[:2]), "sp": st.booleans()}))
    S["mysql.default_charset"] = ("mysql", "charset", st.fixed_dictionaries({"v": st.sampled_from(WORDS[2:5]), "sp": st.booleans()}))
    S["mysql.auto_increment"] = ("mysql", "autoinc", st.fixed_dictionaries({"n": st.integers(0, 10**6), "sp": st.booleans()}))
    S["mysql.comment"] = ("mysql", "comment", st.fixed_dictionaries({"text": st.one_of(_lit(), _dqlit())}))
    S["oracle.organization_index"] = ("oracle", "orgindex", st.fixed_dictionaries({}))
    S["oracle.tablespace"] = ("oracle", "tablespace", st.fixed_dictionaries({"name": _name()}))
    S["oracle.storage"] = ("oracle", "storage", st.fixed_dictionaries({
        "kv": st.lists(st.tuples(st.sampled_from(["INITIAL", "NEXT", "MINEXTENTS", "MAXEXTENTS", "PCTINCREASE", "FREELISTS"]),
                                 st.sampled_from(["64K", "1M", "1", "65536", "2147483645", "0", "8"])), min_size=1, max_size=4, unique_by=lambda kv: kv[0])}))
    S["redshift.diststyle"] = ("redshift", "diststyle", st.fixed_dictionaries({"v": st.sampled_from(["KEY", "ALL", "EVEN", "AUTO"])}))
    S["redshift.distkey"] = ("redshift", "distkey", st.fixed_dictionaries({"col": st.integers(0, 5), "glued": st.booleans()}))
    S["redshift.sortkey"] = ("redshift", "sortkey", st.fixed_dictionaries({"style": st.sampled_from(["COMPOUND", "INTERLEAVED"]), "cols": st.integers(1, 3)}))
    S["snowflake.cluster_by"] = ("snowflake", "cluster", st.fixed_dictionaries({"cols": st.integers(1, 3)}))
    S["snowflake.comment"] = ("snowflake", "comment", st.fixed_dictionaries({"text": _lit(), "sp": st.booleans()}))
    S["snowflake.data_retention"] = ("snowflake", "retention", st.fixed_dictionaries({"n": st.one_of(st.sampled_from([0, 1, 90]), st.integers(0, 90)), "sp": st.booleans()}))  # 0 switches Time Travel off
    S["snowflake.change_tracking"] = ("snowflake", "tracking", st.fixed_dictionaries({"v": st.sampled_from(["TRUE", "FALSE", "true", "False"]), "sp": st.booleans()}))
    S["snowflake.max_data_extension"] = ("snowflake", "maxext", st.fixed_dictionaries({"n": st.integers(0, 90), "sp": st.booleans()}))
    S["snowflake.with_tag"] = ("snowflake", "tag", st.fixed_dictionaries({
        "with": st.booleans(), "tags": st.lists(st.tuples(_name(), st.one_of(st.none(), _name()), _lit()), min_size=1, max_size=3)}))
    S["mssql.on"] = ("mssql", "on", st.fixed_dictionaries({"name": st.sampled_from(["[PRIMARY]", "fg1", "[FG_2]", "PRIMARY_x"])}))
    S["mssql.textimage_on"] = ("mssql", "textimage", st.fixed_dictionaries({"name": st.sampled_from(["[PRIMARY]", "fg1", "[FG_2]"])}))
    S["mssql.with"] = ("mssql", "with", st.fixed_dictionaries({
        "props": st.lists(st.tuples(st.sampled_from(["DATA_COMPRESSION", "PAD_INDEX", "FILLFACTOR", "STATISTICS_NORECOMPUTE", "IGNORE_DUP_KEY"]),
                                    st.sampled_from(["PAGE", "OFF", "ON", "80", "ROW"])), min_size=1, max_size=3, unique_by=lambda kv: kv[0])}))
    S["bigquery.options"] = ("bigquery", "options", st.fixed_dictionaries({
        "kv": st.lists(st.tuples(st.sampled_from(["description", "friendly_name", "expiration_days", "kms_key_name", "labels_x"]),
                                 st.one_of(_lit(), _dqlit(), st.integers(0, 999).map(str))), min_size=1, max_size=3, unique_by=lambda kv: kv[0])}))
    S["bigquery.partition_by"] = ("bigquery", "partition", st.fixed_dictionaries({"col": _name(), "fn": st.sampled_from([None, "DATE", "DATE_TRUNC", "TIMESTAMP_TRUNC"]),
                                                                                  "by": st.sampled_from(["MONTH", "DAY", "YEAR", "HOUR"])}))
    S["bigquery.cluster_by"] = ("bigquery", "cluster", st.fixed_dictionaries({"cols": st.integers(1, 3), "paren": st.booleans()}))
    S["postgres.inherits"] = ("postgres", "inherits", st.fixed_dictionaries({"schema": st.one_of(st.none(), _name()), "name": _name()}))
    S["postgres.partition_by"] = ("postgres", "partition", st.fixed_dictionaries({"type": st.sampled_from(["RANGE", "HASH", "LIST", "range"]), "cols": st.integers(1, 2)}))
    S["postgres.tablespace"] = ("postgres", "tablespace", st.fixed_dictionaries({"name": _name()}))
    S["spark_sql.using"] = ("spark_sql", "using", st.fixed_dictionaries({"v": st.sampled_from(WORDS[5:])}))
    S["ibm_db2.in"] = ("ibm_db2", "in", st.fixed_dictionaries({"name": _name()}))
    S["ibm_db2.index_in"] = ("ibm_db2", "indexin", st.fixed_dictionaries({"name": _name()}))
    S["ibm_db2.organize_by"] = ("ibm_db2", "organize", st.fixed_dictionaries({"v": st.sampled_from(["ROW", "COLUMN"])}))
    return S


CATALOGUE = _args_strategies()
DIALECTS = sorted(set(v[0] for v in CATALOGUE.values()))
BY_DIALECT = {d: sorted(k for k, v in CATALOGUE.items() if v[0] == d) for d in DIALECTS}
# observed grammar constraint (DESIGN C11): Oracle ORGANIZATION INDEX only before STORAGE / TABLESPACE; DB2 IN before INDEX IN
MUST_PRECEDE = [("oracle.organization_index", "oracle.storage"), ("oracle.organization_index", "oracle.tablespace"), ("ibm_db2.in", "ibm_db2.index_in")]


def _eq(sp):
    return [EQ] if sp else [("=", "G")]


def _cols(names, k):
    return [names[i % len(names)] for i in range(k)][:max(1, min(k, len(names)))]


def clause(inst, colnames):
    """-> (tokens, placement, {key: value})"""
    cid, a = inst["id"], inst["args"]
    if cid == "hql.stored_as":
        return K("STORED", "AS") + [V(a["fmt"])], "top", {"stored_as": a["fmt"]}
    if cid == "hql.stored_as_io":
        return K("STORED", "AS", "INPUTFORMAT") + [L(a["inp"])] + K("OUTPUTFORMAT") + [L(a["out"])], "top", {"stored_as": {"inputformat": a["inp"], "outputformat": a["out"]}}
    if cid == "hql.location":
        return K("LOCATION") + [L(a["path"])], "top", {"location": a["path"]}
    if cid == "hql.row_format_delimited":
        toks = K("ROW", "FORMAT") + [V("DELIMITED")]
        exp = {"row_format": "DELIMITED"}
        for key, words, field in (("fields", ("FIELDS",), "fields_terminated_by"), ("coll", ("COLLECTION", "ITEMS"), "collection_items_terminated_by"),
                                  ("mapk", ("MAP", "KEYS"), "map_keys_terminated_by"), ("lines", ("LINES",), "lines_terminated_by")):
            if a[key]:
                toks += K(*words) + K("TERMINATED", "BY") + [L(a[key])]
                exp[field] = a[key]
        return toks, "top", exp
    if cid == "hql.row_format_serde":
        toks = K("ROW", "FORMAT", "SERDE") + [L(a["cls"])]
        val = {"serde": True, "java_class": a["cls"]}
        if a["props"]:
            toks += K("WITH", "SERDEPROPERTIES") + plist([[L(k), ("=", "G"), L(v)] for k, v in a["props"]])
            val["properties"] = {k: v for k, v in a["props"]}
        return toks, "top", {"row_format": val}
    if cid == "hql.tblproperties":
        return K("TBLPROPERTIES") + plist([[L(k), ("=", "G"), L(v)] for k, v in a["props"]]), "top", {"tblproperties": {k: v for k, v in a["props"]}}
    if cid == "hql.partitioned_by":
        items, exp = [], []
        for (n, t), x in zip(a["cols"], list(a.get("extra") or []) + [None] * 3):
            if x and x[0] == "size":
                items.append([I(n), T("varchar"), LP, N(x[1]), RP])
                exp.append({"name": n, "type": "varchar", "size": x[1]})
            elif x and x[0] == "comment":
                items.append([I(n), T(t)] + K("COMMENT") + [L(x[1])])
                exp.append({"name": n, "type": t, "size": None, "comment": x[1]})
            else:
                items.append([I(n), T(t)])
                exp.append({"name": n, "type": t, "size": None})
        return K("PARTITIONED", "BY") + plist(items), "common", {"partitioned_by": exp}
    if cid == "hql.clustered_by":
        cs = _cols(colnames, a["cols"])
        return (K("CLUSTERED", "BY") + plist([[I(c)] for c in cs]) + K("INTO") + [N(a["n"])] + K("BUCKETS"), "top",
                {"clustered_by": cs, "into_buckets": str(a["n"])})
    if cid in ("hql.comment", "mysql.comment", "snowflake.comment"):
        toks = K("COMMENT")
        if cid != "hql.comment":
            toks += _eq(a.get("sp", True))
        return toks + [L(a["text"])], "common", {"comment": a["text"]}
    if cid == "hql.skewed_by":
        return (K("SKEWED", "BY") + plist([[I(colnames[0])]]) + K("ON") + plist([[N(x)] for x in a["on"]]), "top",
                {"skewed_by": {"key": colnames[0], "on": [str(x) for x in a["on"]]}})
    if cid == "mysql.engine":
        return K("ENGINE") + _eq(a["sp"]) + [V(a["v"])], "top", {"engine": a["v"]}
    if cid == "mysql.default_charset":
        return K("DEFAULT", "CHARSET") + _eq(a["sp"]) + [V(a["v"])], "top", {"default_charset": a["v"]}
    if cid == "mysql.auto_increment":
        return K("AUTO_INCREMENT") + _eq(a["sp"]) + [N(a["n"])], "top", {"auto_increment": str(a["n"])}
    if cid == "oracle.organization_index":
        return K("ORGANIZATION", "INDEX"), "top", {"organization_index": True}
    if cid in ("oracle.tablespace", "postgres.tablespace"):
        return K("TABLESPACE") + [I(a["name"])], "common", {"tablespace": {"tablespace_name": a["name"], "properties": None, "type": None, "temporary": False}}
    if cid == "oracle.storage":
        toks = K("STORAGE") + [LP]
        for k, v in a["kv"]:
            toks += [V(k), V(v)]
        return toks + [RP], "top", {"storage": {k.lower(): v for k, v in a["kv"]}}
    if cid == "redshift.diststyle":
        return K("DISTSTYLE") + [V(a["v"])], "top", {"diststyle": a["v"]}
    if cid == "redshift.distkey":
        c = colnames[a["col"] % len(colnames)]
        return K("DISTKEY") + [("(", "PG" if a["glued"] else "P"), I(c), RP], "top", {"distkey": c}
    if cid == "redshift.sortkey":
        cs = _cols(colnames, a["cols"])
        return [V(a["style"])] + K("SORTKEY") + plist([[I(c)] for c in cs]), "top", {"sortkey": {"type": a["style"], "keys": cs}}
    if cid == "snowflake.cluster_by":
        cs = _cols(colnames, a["cols"])
        return K("CLUSTER", "BY") + plist([[I(c)] for c in cs]), "top", {"cluster_by": cs}
    if cid == "snowflake.data_retention":
        return K("DATA_RETENTION_TIME_IN_DAYS") + _eq(a["sp"]) + [N(a["n"])], "props", {"data_retention_time_in_days": a["n"]}
    if cid == "snowflake.change_tracking":
        return K("CHANGE_TRACKING") + _eq(a["sp"]) + [V(a["v"])], "props", {"change_tracking": a["v"].upper() == "TRUE"}
    if cid == "snowflake.max_data_extension":
        return K("MAX_DATA_EXTENSION_TIME_IN_DAYS") + _eq(a["sp"]) + [N(a["n"])], "props", {"max_data_extension_time_in_days": str(a["n"])}
    if cid == "snowflake.with_tag":
        items, vals = [], []
        for n, sch, v in a["tags"]:
            full = (sch + "." if sch else "") + n
            items.append([I(full), EQ, L(v)])
            vals.append("%s=%s" % (full, v))
        toks = (K("WITH") if a["with"] else []) + K("TAG") + plist(items)
        return toks, "top", {"with_tag": vals[0] if len(vals) == 1 else vals}
    if cid == "mssql.on":
        return K("ON") + [I(a["name"])], "top", {"on": a["name"]}
    if cid == "mssql.textimage_on":
        return K("TEXTIMAGE_ON") + [I(a["name"])], "top", {"textimage_on": a["name"]}
    if cid == "mssql.with":
        return (K("WITH") + plist([[V(k), EQ, V(v)] for k, v in a["props"]]), "top",
                {"with": {"properties": [{"name": k, "value": v} for k, v in a["props"]], "on": None}})
    if cid == "bigquery.options":
        return (K("OPTIONS") + plist([[V(k), ("=", "G"), (L(v) if v[:1] in "'\"" else N(v))] for k, v in a["kv"]]), "top",
                {"options": [{k: v} for k, v in a["kv"]]})
    if cid == "bigquery.partition_by":
        toks = K("PARTITION", "BY")
        if a["fn"] is None:
            return toks + [I(a["col"])], "common", {"partition_by": {"columns": [a["col"]], "type": None}}
        if a["fn"] == "DATE":
            return toks + [V("DATE"), ("(", "PG"), I(a["col"]), RP], "common", {"partition_by": {"columns": [a["col"]], "type": "DATE"}}
        return (toks + [V(a["fn"]), ("(", "PG"), I(a["col"]), COMMA, V(a["by"]), RP], "common",
                {"partition_by": {"columns": [a["col"]], "type": a["fn"], "trunc_by": a["by"]}})
    if cid == "bigquery.cluster_by":
        cs = _cols(colnames, a["cols"])
        if not a["paren"] and a.get("force_multi"):  # replay of K12 only
            toks = K("CLUSTER", "BY")
            for n, c in enumerate(cs):
                toks += ([COMMA] if n else []) + [I(c)]
            return toks, "top", {"cluster_by": cs}
        if not a["paren"]:
            safe = [c for c in colnames if c.strip('"`[]').upper() not in gen.RESERVED] or None
            if safe is None and not a.get("force_kw"):  # K24: keyword-shaped name in an unparenthesised list -> parenthesise
                return K("CLUSTER", "BY") + plist([[I(c)] for c in cs]), "top", {"cluster_by": cs}
            cs = [(safe or colnames)[0]]  # K12: unparenthesised multi-column CLUSTER BY is a known finding
            return K("CLUSTER", "BY") + [I(cs[0])], "top", {"cluster_by": cs}
        return K("CLUSTER", "BY") + plist([[I(c)] for c in cs]), "top", {"cluster_by": cs}
    if cid == "postgres.inherits":
        return (K("INHERITS") + [LP, I((a["schema"] + "." if a["schema"] else "") + a["name"]), RP], "top",
                {"inherits": {"schema": a["schema"], "table_name": a["name"]}})
    if cid == "postgres.partition_by":
        cs = _cols(colnames, a["cols"])
        return K("PARTITION", "BY") + [V(a["type"])] + plist([[I(c)] for c in cs]), "common", {"partition_by": {"columns": cs, "type": a["type"]}}
    if cid == "spark_sql.using":
        return K("USING") + [V(a["v"])], "props", {"using": a["v"]}
    if cid == "ibm_db2.in":
        return K("IN") + [I(a["name"])], "common", {"tablespace": a["name"]}
    if cid == "ibm_db2.index_in":
        return K("INDEX", "IN") + [I(a["name"])], "top", {"index_in": a["name"]}
    if cid == "ibm_db2.organize_by":
        return K("ORGANIZE", "BY") + [V(a["v"])], "top", {"organize_by": a["v"]}
    raise ValueError(cid)


_EXAMPLES = {}


def order_ok(ids):
    for first, second in MUST_PRECEDE:
        if first in ids and second in ids and ids.index(first) > ids.index(second):
            return False
    return True


@st.composite
def clause_set(draw, dialect=None, max_clauses=5):
    d = dialect or draw(st.sampled_from(DIALECTS))
    ids = list(draw(st.permutations(BY_DIALECT[d])))
    k = draw(st.integers(1, min(max_clauses, len(ids))))
    chosen, groups, commons = [], set(), set()
    for cid in ids:
        grp = CATALOGUE[cid][1]
        if grp in groups:
            continue
        chosen.append(cid)
        groups.add(grp)
        if len(chosen) == k:
            break
    # construct a legal order instead of rejecting
    for first, second in MUST_PRECEDE:
        if first in chosen and second in chosen and chosen.index(first) > chosen.index(second):
            chosen.remove(first)
            chosen.insert(chosen.index(second), first)
    return d, [{"id": cid, "args": draw(CATALOGUE[cid][2])} for cid in chosen]


@st.composite
def body(draw):
    n = draw(st.integers(1, 5))
    if draw(st.integers(0, 2)) == 0:
        # keyword-shaped / delimited column names (every grammar keyword outside C06's excluded list is a legal column name);
        # the clauses that take column lists (CLUSTER BY, CLUSTERED BY, SORTKEY, DISTKEY, PARTITION BY, SKEWED BY) name them
        from . import c06

        names = draw(c06.distinct(n, "col"))
    else:
        names = draw(gen.distinct_names(n))
    cols = []
    have_pk = False
    for nm in names:
        c = draw(gen.column(nm, with_pk=not have_pk, with_ref=True))
        have_pk = have_pk or any(o[0] == "PK" for o in c["opts"])
        cols.append(c)
    tpk = None
    if not have_pk and draw(st.integers(0, 3)) == 0:
        tpk = list(draw(st.permutations(names)))[:draw(st.integers(1, min(2, n)))]
    return {"schema": draw(st.one_of(st.none(), gen.plain_ident())), "name": draw(gen.plain_ident(min_len=2)), "cols": cols, "tpk": tpk}


@st.composite
def case_strategy(draw, max_clauses):
    d, clauses = draw(clause_set(max_clauses=max_clauses))
    return {"dialect": d, "clauses": clauses, "body": draw(body()), "layout": draw(gen.layout(max_len=50))}


def body_items(b):
    items = [{"col": c} for c in b["cols"]]
    if b["tpk"]:
        items.append({"raw": K("PRIMARY", "KEY") + plist([[I(c)] for c in b["tpk"]])})
    return items


def merge_glue(toks):
    """private roles: 'G' = '=' glued on both sides (ENGINE=InnoDB, 'k'='v'), 'PG' = '(' glued to the word on its left
    (DISTKEY(a), DATE(ts)). The glued pieces become one token that is never re-cased."""
    out = []
    for t, r in toks:
        if r == "G" and out:
            out[-1] = (out[-1][0] + t, out[-1][1] + "+")
        elif out and out[-1][1].endswith("+"):
            out[-1] = (out[-1][0] + t, r if r != "K" else "V")
        elif r == "PG" and out:
            out[-1] = (out[-1][0] + t, "V")
        else:
            out.append((t, r))
    return [(t, r.rstrip("+") if r.rstrip("+") != "K" or not r.endswith("+") else "V") for t, r in out]


class C11(Prop):
    id = "C11"
    rule = ("case = random table body (1..5 core columns with options, optional table-level PRIMARY KEY; the last column carries "
            "every option kind) + 1..5 compatible clauses of one dialect in random order from a catalogue of 41 parametrised "
            "clause forms (Hive 10, MySQL 4, Oracle 3, Redshift 3, Snowflake 6, MSSQL 3, BigQuery 3, PostgreSQL 3, Spark 1, DB2 3), "
            "each with generated arguments; parsed in the owning mode and in the default mode; drawn layout / keyword case; "
            "non-trivial = >= 2 clauses, or a clause after a last column that carries >= 2 options; thorough additionally "
            "enumerates every single clause and every ordered pair per dialect; distinct = SHA-1 of the case")
    budgets = {"quick": 4000, "thorough": 150000}
    assumptions = [
        "clause forms outside the catalogue (SORTKEY without style word, STAGE_FILE_FORMAT, DEFAULT CHARACTER SET, USING ... OPTIONS) are not generated",
        "unparenthesised multi-column BigQuery CLUSTER BY is known finding K12 (single column generated)",
        "Oracle ORGANIZATION INDEX is written before STORAGE / TABLESPACE and DB2 IN before INDEX IN (grammar order)",
        "literal arguments avoid '=' and doubled quotes (known findings K14, K15) and the K1-K4 alphabet",
        "placement table (top / table_properties / common) is frozen from the pinned tree and README",
    ]

    def strategy(self, tier):
        return case_strategy(4 if tier == "quick" else 5)

    def enumerated(self, tier):
        if tier != "thorough":
            return
        import hypothesis
        # every single clause and every ordered pair per dialect, with fixed example arguments
        b = {"schema": "s1", "name": "tbl", "tpk": None, "cols": [
            {"name": "a", "type": "int", "size": None, "opts": [["NOTNULL"]]},
            {"name": "b", "type": "varchar", "size": [10], "opts": [["DEFAULT", "'x'", "'x'"], ["NOTNULL"]]}]}
        for d in DIALECTS:
            ids = BY_DIALECT[d]
            combos = [[i] for i in ids] + [[i, j] for i in ids for j in ids if i != j and CATALOGUE[i][1] != CATALOGUE[j][1]]
            for combo in combos:
                if not order_ok(combo):
                    continue
                for cid in combo:
                    if cid not in _EXAMPLES:
                        _EXAMPLES[cid] = hypothesis.find(CATALOGUE[cid][2], lambda x: True, settings=hypothesis.settings(database=None, max_examples=1))
                clauses = [{"id": cid, "args": _EXAMPLES[cid]} for cid in combo]
                yield {"dialect": d, "clauses": clauses, "body": b, "layout": None}

    def statement(self, case, with_clauses=True):
        b = case["body"]
        tbl = {"schema": b["schema"], "name": b["name"], "items": body_items(b), "clauses": []}
        names = [c["name"] for c in b["cols"]]
        expect = []
        if with_clauses:
            insts = list(case["clauses"])
            ids = [i["id"] for i in insts]
            kwnames = any(n.strip('"`[]').upper() in gen.RESERVED for n in names)
            if kwnames and not case.get("_no_carve") and "postgres.tablespace" in ids and "postgres.partition_by" in ids and \
                    ids.index("postgres.tablespace") < ids.index("postgres.partition_by"):
                # K24: a keyword-shaped column name in a column list that follows a TABLESPACE clause loses the table
                i, j = ids.index("postgres.tablespace"), ids.index("postgres.partition_by")
                insts[i], insts[j] = insts[j], insts[i]
            for inst in insts:
                toks, place, exp = clause(inst, names)
                tbl["clauses"].append(toks)
                expect.append((inst["id"], place, exp))
        return gen.create_table_tokens(tbl), expect

    def render(self, toks, layout):
        return render_script([merge_glue(toks)], layout)

    def describe(self, case):
        toks, expect = self.statement(case)
        return {"ddl": self.render(toks, case["layout"]), "mode": case["dialect"], "expected": [[i, p, e] for i, p, e in expect]}

    def evaluate(self, case):
        out = Outcome()
        toks, expect = self.statement(case, True)
        base_toks, _ = self.statement(case, False)
        ddl = self.render(toks, case["layout"])
        base_ddl = self.render(base_toks, case["layout"])
        last_opts = len(case["body"]["cols"][-1]["opts"])
        out.nontrivial = len(expect) >= 2 or last_opts >= 2
        out.label("dialect:" + case["dialect"], "nclauses=%d" % len(expect))
        for i, _, _ in expect:
            out.label("clause:" + i)
        for a, b in zip(expect, expect[1:]):
            out.label("pair:%s>%s" % (a[0], b[0]))
        for mode in (case["dialect"], "sql"):
            r = loader.try_parse(ddl, output_mode=mode)
            rb = loader.try_parse(base_ddl, output_mode=mode)
            out.parses += 2
            if rb[0] != "ok" or len(rb[1]) != 1:
                out.fail("body-alone", "clause-free table does not parse in mode %s: %r" % (mode, base_ddl))
                continue
            if r[0] != "ok":
                out.fail("exception", "mode %s: %s: %s on %r" % (mode, r[1], r[2], ddl))
                continue
            if len(r[1]) != 1 or "table_name" not in r[1][0]:
                out.fail("table-lost", "mode %s: expected one table, got %r for %r" % (mode, r[1], ddl))
                continue
            got, base = r[1][0], rb[1][0]
            want_top, want_props = {}, {}
            for cid, place, exp in expect:
                for k, v in exp.items():
                    target = want_top if (place == "common" or (place == "top" and mode != "sql")) else want_props
                    if k in target:
                        out.fail("catalogue", "two clauses write %r" % k)
                    target[k] = v
            with compare(out, "result"):
                for k, v in want_top.items():
                    if k not in got:
                        out.fail("clause-missing:" + k, "mode %s: key %r missing at top level; got keys %r; %r" % (mode, k, sorted(got), ddl))
                    elif got[k] != v:
                        out.fail("clause-value:" + k, "mode %s: %r expected %r got %r; %r" % (mode, k, v, got[k], ddl))
                gp = got.get("table_properties", {})
                bp = base.get("table_properties", {})
                for k, v in want_props.items():
                    if k not in gp:
                        out.fail("clause-missing:" + k, "mode %s: key %r missing under table_properties; got %r; %r" % (mode, k, gp, ddl))
                    elif gp[k] != v:
                        out.fail("clause-value:" + k, "mode %s: table_properties[%r] expected %r got %r; %r" % (mode, k, v, gp[k], ddl))
                for k in gp:
                    if k not in want_props and gp[k] != bp.get(k, object()):
                        out.fail("unexpected-property:" + k, "mode %s: table_properties[%r]=%r not written by any clause; %r" % (mode, k, gp[k], ddl))
                for k in got:
                    if k in want_top or k == "table_properties":
                        continue
                    if k not in base:
                        out.fail("unexpected-key:" + k, "mode %s: key %r=%r appears only with the clauses; %r" % (mode, k, got[k], ddl))
                    elif got[k] != base[k]:
                        out.fail("body-changed:" + k, "mode %s: %r is %r without the clauses and %r with them; %r" % (mode, k, base[k], got[k], ddl))
                for k in base:
                    if k not in got and k != "table_properties":
                        out.fail("body-key-lost:" + k, "mode %s: key %r disappears when clauses are added; %r" % (mode, k, ddl))
                # a COMMENT text is a value, not a name: normalize_names=True must leave it as written, double-quoted or not
                if mode != "sql" and isinstance(want_top.get("comment"), str):
                    rn = loader.try_parse(ddl, output_mode=mode, normalize_names=True)
                    out.parses += 1
                    out.label("comment_under_normalize_names")
                    if rn[0] != "ok" or len(rn[1]) != 1 or rn[1][0].get("comment") != want_top["comment"]:
                        out.fail("clause-value-normalized:comment", "mode %s normalize_names=True: comment expected %r got %r; %r" % (
                            mode, want_top["comment"], rn[1][0].get("comment") if rn[0] == "ok" and len(rn[1]) == 1 else rn[:3], ddl))
        return out


PROP = C11()
