"""C03 - statements of a script are parsed independently and reported in order.

Oracle: metamorphic. A script is a sequence of self-contained blocks (an ALTER / CREATE INDEX history is
bundled with its target tables) with unsupported statements in between. Relations, all on the very same
statement texts:
  (1) run(script) == concatenation of run(block) for every block alone;
  (2) removing the unsupported statements changes nothing;
  (3) a permutation of the blocks permutes the result accordingly.
The regression corpus is used for (1) on ordered pairs / triples of whole corpus scripts.
"""
from hypothesis import strategies as st

from .. import gen, loader, universe
from ..engine import Outcome, Prop, compare
from ..render import render_parts


@st.composite
def generated_case(draw, max_blocks):
    blocks = draw(universe.script(2, max_blocks, unsupported_p=3))
    if draw(st.integers(0, 7)) == 0:
        blocks = [draw(universe.block(["tables"]))] + blocks + [draw(universe.block(["like"]))]
    # CREATE TABLE x LIKE y where y is a table of an earlier block of the same script: what x yields must not depend on that
    # (nor may anything done to x later reach y)
    defined = []
    for b in blocks:
        if b["k"] == "tables":
            defined += [((t["schema"] + ".") if t["schema"] else "") + t["name"] for t in b["c"]["tables"]]
        elif b["k"] == "like" and defined and draw(st.booleans()):
            b["c"]["src"] = draw(st.sampled_from(defined))
            b["c"]["alter_add"] = draw(st.booleans())
    n = len([b for b in blocks if b["k"] != "raw"])
    perm = draw(st.permutations(list(range(n))))
    # eof: the script's last line has no line end (a file without a trailing newline)
    return {"src": "gen", "blocks": blocks, "layout": draw(gen.layout(max_len=60)), "perm": list(perm), "eof": draw(st.integers(0, 3)) == 0}


@st.composite
def corpus_case(draw):
    n = len(universe.corpus())
    k = draw(st.integers(2, 3))
    items = [draw(st.integers(0, n - 1)) for _ in range(k)]
    between = [draw(st.one_of(st.none(), universe.unsupported())) for _ in range(k + 1)]
    return {"src": "corpus", "items": items, "between": between}


def terminated(text):
    """a corpus script as a block: last statement closed by ';' at the end of a line"""
    t = text.rstrip()
    if not t.endswith(";"):
        t += ";"
    return t + "\n"


class C03(Prop):
    id = "C03"
    rule = ("case = script of 2..N self-contained blocks drawn from every supported statement kind of the model generators "
            "(core tables, constraint tables, tables + ALTER/INDEX history, nested-type tables, sequences, TYPE/DOMAIN/SCHEMA/"
            "DATABASE/TABLESPACE declarations, SET, DROP TABLE, LIKE) with unsupported statements (40 parser-rejected and 8 "
            "line-skipped templates, some multi-line) inserted at any gap, drawn layout; or an ordered pair/triple of whole "
            "regression-corpus scripts with unsupported statements around them; relations: whole == concatenation of the "
            "blocks parsed alone, == whole without unsupported statements, block permutation permutes the result; "
            "non-trivial = >= 3 blocks of >= 2 distinct kinds and >= 1 unsupported statement (corpus: >= 2 distinct scripts); "
            "distinct = SHA-1 of the case")
    budgets = {"quick": 3000, "thorough": 60000}
    assumptions = [
        "scripts containing \"input.regex\" (K7) or a backslash-escaped quote (K8) are not combined with others (known findings; "
        "corpus items carrying them are skipped and counted)",
        "the comments entry is not part of the relation (C08 covers comments)",
        "a block that raises when parsed alone is not used as a block",
    ]

    def strategy(self, tier):
        mb = 5 if tier == "quick" else 9
        return st.one_of(generated_case(mb), generated_case(mb), corpus_case())

    def fixed_cases(self):
        return []

    def enumerated(self, tier):
        # deterministic sweep: every corpus script followed by its successor, and preceded by it, with an unsupported
        # statement in between
        n = len(universe.corpus())
        sel = {"family": "rejected", "text": "SELECT a, b FROM t WHERE a > 1;"}
        for i in range(n):
            j = (i + 1) % n
            yield {"src": "corpus", "items": [i, j], "between": [None, None, None]}
            yield {"src": "corpus", "items": [j, i], "between": [None, sel, None]}
            if tier == "thorough":
                for d in (7, 31, 101):
                    yield {"src": "corpus", "items": [i, (i + d) % n, (i + 2 * d) % n], "between": [sel, None, None, sel]}

    # ---- generated scripts
    def texts(self, case):
        """-> list of (block, text) in script order; text of a block = its statements exactly as in the script"""
        blocks = case["blocks"]
        stmts, owner = [], []
        for i, b in enumerate(blocks):
            ss = [b["c"]["text"]] if b["k"] == "raw" else universe.statements(b, i)
            stmts.extend(ss)
            owner.extend([i] * len(ss))
        parts = render_parts(stmts, case["layout"])
        out = [[b, ""] for b in blocks]
        for i, p in zip(owner, parts):
            out[i][1] += p
        return out

    def describe(self, case):
        if case["src"] == "corpus":
            return {"corpus_items": [universe.corpus()[i]["src"] for i in case["items"]],
                    "between": [b and b["text"] for b in case["between"]]}
        ddl = "".join(t for _, t in self.texts(case))
        return {"ddl": ddl.rstrip("\r\n") if case.get("eof") else ddl, "block_kinds": [b["k"] for b in case["blocks"]]}

    def evaluate(self, case):
        if case["src"] == "corpus":
            return self.evaluate_corpus(case)
        out = Outcome()
        bt = self.texts(case)
        kinds = [b["k"] for b, _ in bt]
        sup = [(b, t) for b, t in bt if b["k"] != "raw"]
        nraw = len(bt) - len(sup)
        out.label("blocks=%d" % len(sup), "unsupported=%d" % min(nraw, 3))
        for a, b in zip(kinds, kinds[1:]):
            out.label("pair:%s>%s" % (a, b))
        out.nontrivial = len(sup) >= 3 and len(set(b["k"] for b, _ in sup)) >= 2 and nraw >= 1
        eof = (lambda t: t.rstrip("\r\n")) if case.get("eof") else (lambda t: t)
        if case.get("eof"):
            out.label("no_final_newline")
        whole = eof("".join(t for _, t in bt))
        r = loader.try_parse(whole)
        out.parses += 1
        if r[0] != "ok":
            out.fail("exception", "%s: %s on %r" % (r[1], r[2], whole))
            return out
        got = loader.no_comments(r[1])
        alone = []
        for b, t in sup:
            ra = loader.try_parse(t)
            out.parses += 1
            if ra[0] != "ok":
                out.fail("block-alone-exception", "%s: %s on %r" % (ra[1], ra[2], t))
                return out
            alone.append(loader.no_comments(ra[1]))
        concat = [e for res in alone for e in res]
        if got != concat:
            out.fail("concatenation", "script result differs from the concatenation of its blocks parsed alone\nscript=%r\ngot   =%r\nconcat=%r" % (whole, got, concat))
            return out
        if nraw:
            clean = eof("".join(t for _, t in sup))
            rc = loader.try_parse(clean)
            out.parses += 1
            if rc[0] != "ok" or loader.no_comments(rc[1]) != got:
                out.fail("unsupported-neighbour", "removing the unsupported statements changes the result\nwith   =%r\nwithout=%r" % (whole, clean))
        perm = case.get("perm") or []
        if sorted(perm) == list(range(len(sup))) and perm != sorted(perm):
            ptxt = eof("".join(sup[i][1] for i in perm))
            rp = loader.try_parse(ptxt)
            out.parses += 1
            exp = [e for i in perm for e in alone[i]]
            if rp[0] != "ok" or loader.no_comments(rp[1]) != exp:
                out.fail("permutation", "permuted script does not yield the permuted result\nscript=%r\ngot=%r\nexp=%r" % (ptxt, rp[1] if rp[0] == "ok" else rp, exp))
            out.label("permuted")
        return out

    # ---- regression corpus
    def evaluate_corpus(self, case):
        out = Outcome()
        items = [universe.corpus()[i] for i in case["items"]]
        for it in items:
            fl = universe.corpus_flags(it) & {"K7", "K8"}
            if fl:
                out.excluded = sorted(fl)[0]
                return out
        out.label("corpus")
        texts = [terminated(it["ddl"]) for it in items]
        alone = []
        for t in texts:
            ra = loader.try_parse(t)
            out.parses += 1
            if ra[0] != "ok":
                out.excluded = "corpus-item-raises-alone"
                return out
            alone.append(loader.no_comments(ra[1]))
        pieces = []
        for i, t in enumerate(texts):
            if case["between"][i]:
                pieces.append(case["between"][i]["text"] + "\n")
            pieces.append(t)
        if case["between"][len(texts)]:
            pieces.append(case["between"][len(texts)]["text"] + "\n")
        whole = "".join(pieces)
        out.nontrivial = len(set(case["items"])) >= 2
        r = loader.try_parse(whole)
        out.parses += 1
        if r[0] != "ok":
            out.fail("corpus-exception", "%s: %s on corpus items %r" % (r[1], r[2], [it["src"] for it in items]))
            return out
        concat = [e for res in alone for e in res]
        if loader.no_comments(r[1]) != concat:
            out.fail("corpus-concatenation", "corpus items %r (+%r): combined result differs from the concatenation\nscript=%r" % (
                [it["src"] for it in items], [b and b["text"] for b in case["between"]], whole))
        return out


PROP = C03()
