"""C09 - parameterised and nested column types stay whole and leave neighbours intact.

Oracle: reference model for the type text / size / following options + metamorphic comparison with the
same table in which the type is replaced by a plain `int` (neighbours and everything else equal).
"""
import re

from hypothesis import strategies as st

from .. import gen, loader
from ..engine import Outcome, Prop, compare
from ..render import COMMA, END, I, K, L, LP, N, RP, T, V, plist, render_script

LEAF_WORDS = ["STRING", "INT", "int", "bigint", "string", "DOUBLE", "DATE", "boolean", "TIMESTAMP", "float", "BINARY", "Decimal", "varchar", "tinyint"]
TWO_WORD = [["double", "precision"], ["character", "varying"], ["long", "raw"], ["bit", "varying"], ["int", "unsigned"], ["DOUBLE", "PRECISION"]]
FIELD_NAMES = ["a", "b", "fld", "x1", "Name", "street", "zip_code", "f2",
               # field names that merely begin with a type word
               "array_tags", "arrays", "Arrayed", "map_id", "mapping", "structure", "struct_ref", "int_val", "string_ref", "date_of", "year"]
AFTER = [None, None, "STORED AS PARQUET", "COMMENT 'tc'", "PARTITIONED BY (dt string)"]


MODES = ["sql", "mysql", "postgres", "hql", "mssql", "oracle", "redshift", "snowflake", "bigquery", "spark_sql", "databricks", "sqlite", "vertics", "ibm_db2", "athena"]


@st.composite
def inner_type(draw, depth):
    if depth <= 0 or draw(st.integers(0, 9)) < 3:
        return ["leaf", draw(st.sampled_from(LEAF_WORDS))]
    k = draw(st.sampled_from(["ARRAY", "MAP", "STRUCT", "array", "map", "struct", "Array"]))
    if k.upper() == "ARRAY":
        return ["arr", k, draw(inner_type(depth - 1))]
    if k.upper() == "MAP":
        return ["map", k, ["leaf", draw(st.sampled_from(LEAF_WORDS))], draw(inner_type(depth - 1))]
    n = draw(st.integers(1, 3))
    sep = draw(st.sampled_from([":", " "]))
    return ["struct", k, sep, [[draw(st.sampled_from(FIELD_NAMES)) + str(i), draw(inner_type(depth - 1))] for i in range(n)]]


@st.composite
def top_type(draw, max_depth):
    kind = draw(st.integers(0, 9))
    if kind < 4:
        # leaf with size form / suffix / two words
        words = draw(st.one_of(st.sampled_from(LEAF_WORDS).map(lambda w: [w]), st.sampled_from(TWO_WORD)))
        form = draw(st.sampled_from([None, "n", "ps", "max", "nchar", "star"]))
        size = None
        if form == "n":
            size = ["n", draw(st.integers(0, 9999))]
        elif form == "ps":
            size = ["ps", draw(st.integers(0, 99)), draw(st.integers(0, 40))]
        elif form == "max":
            size = ["max", draw(st.sampled_from(["max", "MAX", "Max"]))]
        elif form == "nchar":
            size = ["nchar", draw(st.integers(1, 4000)), draw(st.sampled_from(["CHAR", "BYTE", "char"]))]
        elif form == "star":
            size = ["star", draw(st.integers(0, 38))]
        suffix = 0
        if (form in (None, "n", "ps") and len(words) == 1) or (form is None and len(words) == 2):
            suffix = draw(st.sampled_from([0, 0, 1, 2]))
        return {"top": "leaf", "words": words, "size": size, "suffix": suffix}
    depth = draw(st.integers(1, max_depth))
    t = draw(inner_type(depth))
    if t[0] == "leaf":
        t = ["arr", "ARRAY", t]
    return {"top": "angle", "tree": t, "spaced": draw(st.integers(0, 3)) == 0,
            "commas": draw(st.lists(st.booleans(), min_size=1, max_size=8))}


def tree_depth(t):
    if t[0] == "leaf":
        return 0
    if t[0] == "arr":
        return 1 + tree_depth(t[2])
    if t[0] == "map":
        return 1 + max(tree_depth(t[2]), tree_depth(t[3]))
    return 1 + max(tree_depth(x[1]) for x in t[3])


def render_tree(t, spaced, commas, state):
    if t[0] == "leaf":
        return t[1]
    lt, gt = (" < ", " >") if spaced else ("<", ">")

    def comma():
        c = commas[state[0] % len(commas)]
        state[0] += 1
        if spaced:
            return " , "
        return ", " if c else ","

    if t[0] == "arr":
        return t[1] + lt + render_tree(t[2], spaced, commas, state) + gt
    if t[0] == "map":
        a = render_tree(t[2], spaced, commas, state)
        c = comma()
        return t[1] + lt + a + c + render_tree(t[3], spaced, commas, state) + gt
    parts = []
    for n, (fname, sub) in enumerate(t[3]):
        if n:
            parts.append(comma())
        parts.append(fname + t[2] + render_tree(sub, spaced, commas, state))
    return t[1] + lt + "".join(parts) + gt


def type_tokens(ty):
    """-> (tokens, expected type text, expected size or '<unset>')"""
    if ty["top"] == "angle":
        text = render_tree(ty["tree"], ty["spaced"], ty["commas"], [0])
        return [T(text)], text, None
    words = list(ty["words"])
    suffix = "[]" * ty["suffix"]
    size = ty["size"]
    toks = [T(w) for w in words]
    exp_size = None
    if size is None:
        if suffix:
            toks[-1] = T(words[-1] + suffix)
    else:
        if size[0] == "n":
            toks += [LP, N(size[1]), RP]
            exp_size = size[1]
        elif size[0] == "ps":
            toks += [LP, N(size[1]), COMMA, N(size[2]), RP]
            exp_size = (size[1], size[2])
        elif size[0] == "max":
            toks += [LP, V(size[1]), RP]
            exp_size = size[1]
        elif size[0] == "nchar":
            toks += [LP, N(size[1]), V(size[2]), RP]
            exp_size = "%d %s" % (size[1], size[2])
        else:
            toks += [LP, ("*", "O"), COMMA, N(size[1]), RP]
            exp_size = ("*", size[1])
        if suffix:
            toks.append((suffix, "S"))
    return toks, " ".join(words) + suffix, exp_size


@st.composite
def case_strategy(draw, max_depth):
    ty = draw(top_type(max_depth))
    opts = [o for o, keep in zip([["NOTNULL"], ["DEFAULT", "1", 1], ["COMMENT", "'cc'"]], draw(st.tuples(st.booleans(), st.booleans(), st.booleans()))) if keep]
    if len(opts) > 1:
        opts = [list(o) for o in draw(st.permutations(opts))]
    if draw(st.integers(0, 3)) == 0 and any(o[0] == "DEFAULT" for o in opts):
        for o in opts:
            if o[0] == "DEFAULT":
                o[1], o[2] = "'dv'", "'dv'"
    return {"type": ty, "opts": opts, "pos": draw(st.sampled_from(["first", "mid", "last", "only"])),
            # an earlier column whose double-quoted option value holds an apostrophe (BigQuery style): an apostrophe inside double quotes opens nothing
            "apos": draw(st.integers(0, 5)) == 0,
            "after": draw(st.sampled_from(AFTER)), "layout": draw(gen.layout(max_len=40)), "norm": draw(st.integers(0, 2)) == 0,
            # the type text does not depend on the output mode; hql (which also reports the column COMMENT) is drawn most often
            "mode": draw(st.sampled_from(["hql", "hql", "hql"] + MODES))}


def norm_type(s):
    """whitespace-free; the stand-alone constructor word ARRAY is a grammar keyword (reported upper-cased)"""
    s = re.sub(r"(?i)\barray(?=\s*<)", "ARRAY", s)
    # blanks next to punctuation are layout; a blank between two words (DOUBLE PRECISION, struct field and its type) is not
    return re.sub(r"\s*([<>,:\[\]()])\s*", r"\1", re.sub(r"\s+", " ", s.strip()))


def balanced(s):
    for a, b in (("<", ">"), ("[", "]"), ("(", ")")):
        d = 0
        for ch in s:
            if ch == a:
                d += 1
            elif ch == b:
                d -= 1
                if d < 0:
                    return False
        if d:
            return False
    return True


class C09(Prop):
    id = "C09"
    rule = ("case = one CREATE TABLE in which column b has a type drawn from the recursive type grammar: leaf word(s) with "
            "size forms (n) (p,s) (max|MAX) (n CHAR|BYTE) (*,s), [] / [][] suffix, two-word types, ARRAY<T> / MAP<K,V> / "
            "STRUCT<f:T,..> / STRUCT<f T,..> nested to depth 1..4 (thorough 1..6), compact or spaced spelling, blank or no "
            "blank after each inner comma; b is the first / middle / last / only column, followed by a permuted subset of "
            "NOT NULL, DEFAULT, COMMENT; optionally an after-columns clause; drawn layout; non-trivial = depth >= 1 or a "
            "size form other than none, with >= 1 following option and >= 1 neighbour column; distinct = SHA-1 of the case")
    budgets = {"quick": 10000, "thorough": 200000}
    assumptions = [
        "parenthesised sizes inside angle brackets (array<decimal(10,2)>) and [] after an angle type are not generated (grammar rejects / rewrites them)",
        "'timestamp with time zone' is reported through with_time_zone and not generated as a two-word type",
        "the type text is compared modulo blanks next to punctuation (a blank between two words is significant); the constructor word ARRAY written as a stand-alone token is a grammar keyword and may be reported upper-cased",
    ]

    def strategy(self, tier):
        return case_strategy(4 if tier == "quick" else 6)

    def table(self, case, plain):
        ty_toks, ty_text, exp_size = type_tokens(case["type"])
        b = [I("b")] + ([T("int")] if plain else ty_toks)
        for o in case["opts"]:
            if o[0] == "NOTNULL":
                b += K("NOT", "NULL")
            elif o[0] == "DEFAULT":
                b += K("DEFAULT") + [L(o[1]) if o[1].startswith("'") else N(o[1])]
            else:
                b += K("COMMENT") + [L(o[1])]
        # neighbours: one sized (p,s) column before b, an unsized and a sized one after it
        a, c, d = [I("a"), T("decimal"), LP, N(10), COMMA, N(2), RP], [I("c"), T("text")], [I("d"), T("varchar"), LP, N(5), RP]
        cols = {"first": [b, c, d], "mid": [a, b, c], "last": [a, c, b], "only": [b]}[case["pos"]]
        if case.get("apos"):
            cols = [[I("q0"), T("int"), ("OPTIONS", "K"), LP, I("description"), ("=", "O"), L('"it\'s a q"'), RP]] + cols
        toks = K("CREATE", "TABLE") + [I("t")] + plist(cols)
        if case["after"]:
            for w in case["after"].split(" "):
                if w.startswith("'"):
                    toks.append(L(w))
                elif w.startswith("("):
                    toks += [LP, I("dt"), T("string"), RP]
                    break
                else:
                    toks.append((w, "V" if w == "PARQUET" else "K"))  # the format word is echoed as written
        toks.append(END)
        return toks, ty_text, exp_size

    def describe(self, case):
        toks, ty_text, _ = self.table(case, False)
        return {"ddl": render_script([toks], case["layout"]), "type_written": ty_text}

    def evaluate(self, case):
        out = Outcome()
        toks, ty_text, exp_size = self.table(case, False)
        ptoks, _, _ = self.table(case, True)
        ddl = render_script([toks], case["layout"])
        plain = render_script([ptoks], case["layout"])
        ty = case["type"]
        depth = tree_depth(ty["tree"]) if ty["top"] == "angle" else 0
        out.label("depth=%d" % depth, "pos=" + case["pos"], "nopts=%d" % len(case["opts"]), "after=%s" % bool(case["after"]))
        if ty["top"] == "leaf":
            out.label("size:%s" % (ty["size"][0] if ty["size"] else "none"), "suffix=%d" % ty["suffix"], "words=%d" % len(ty["words"]))
        else:
            out.label("spaced=%s" % ty["spaced"])
        out.nontrivial = (depth >= 1 or (ty["top"] == "leaf" and (ty["size"] or ty["suffix"] or len(ty["words"]) > 1))) and bool(case["opts"]) and case["pos"] != "only"
        # no delimited identifier is written: normalize_names must not change anything (brackets of [] suffixes are not delimiters)
        norm = bool(case.get("norm"))
        out.label("normalize_names=%s" % norm)
        if case.get("apos"):
            out.label("apostrophe-in-double-quoted-value-before")
        mode = case.get("mode", "hql")
        out.label("mode:" + mode)
        r = loader.try_parse(ddl, output_mode=mode, normalize_names=norm)
        q = loader.try_parse(plain, output_mode=mode, normalize_names=norm)
        out.parses += 2
        if q[0] != "ok" or not q[1] or "columns" not in q[1][0]:
            out.fail("plain-variant-failed", "harmless variant with plain int did not parse: %r -> %r" % (plain, q))
            return out
        if r[0] != "ok":
            out.fail("exception", "%s: %s on %r" % (r[1], r[2], ddl))
            return out
        res, base = r[1], q[1]
        with compare(out, "result"):
            if len(res) != 1 or "columns" not in res[0]:
                out.fail("table-lost", "got %r for %r" % (res, ddl))
                return out
            names = [c["name"] for c in res[0]["columns"]]
            exp_names = [c["name"] for c in base[0]["columns"]]
            if names != exp_names:
                out.fail("column-list", "expected %r got %r; %r" % (exp_names, names, ddl))
                return out
            b = [c for c in res[0]["columns"] if c["name"] == "b"][0]
            if not isinstance(b["type"], str) or norm_type(b["type"]) != norm_type(ty_text):
                out.fail("type-text", "written %r reported %r; %r" % (ty_text, b["type"], ddl))
            elif not balanced(b["type"]):
                out.fail("type-unbalanced", "reported %r; %r" % (b["type"], ddl))
            if b["size"] != exp_size or type(b["size"]) is not type(exp_size):
                out.fail("size", "expected %r got %r; %r" % (exp_size, b["size"], ddl))
            for o in case["opts"]:
                if o[0] == "NOTNULL" and b["nullable"] is not False:
                    out.fail("following-option", "NOT NULL lost; %r" % ddl)
                if o[0] == "DEFAULT" and b["default"] != o[2]:
                    out.fail("following-option", "DEFAULT expected %r got %r; %r" % (o[2], b["default"], ddl))
                if o[0] == "COMMENT" and (mode == "hql" or "comment" in b) and b.get("comment") != o[1]:
                    out.fail("following-option", "COMMENT expected %r got %r; %r" % (o[1], b.get("comment"), ddl))

            def proj(e):
                e = dict(e)
                e["columns"] = [{k: v for k, v in c.items() if not (c["name"] == "b" and k in ("type", "size"))} for c in e["columns"]]
                return e

            if proj(res[0]) != proj(base[0]):
                out.fail("neighbours", "table differs from the one with a plain type beyond b.type/size: %r vs %r; %r" % (proj(res[0]), proj(base[0]), ddl))
        return out


PROP = C09()
