"""C10 - output_mode only filters presentation; common content is equal in every mode.

Oracle: metamorphic against the default mode 'sql', plus a frozen placement table for dialect fields
(data/dialect_fields.json, transcribed once from the pinned tree / README - never read from the code at run time).
"""
import json
import os

from hypothesis import strategies as st

from .. import gen, loader, universe
from ..engine import Outcome, Prop
from . import c08

HERE = os.path.dirname(os.path.abspath(__file__))
with open(os.path.join(os.path.dirname(os.path.dirname(HERE)), "data", "dialect_fields.json")) as _f:
    _FROZEN = json.load(_f)
FIELDS = _FROZEN["fields"]
MODES = universe.MODES
# table fields the property calls common + the remaining dialect-independent base fields
COMMON_TABLE_FIELDS = ["table_name", "schema", "columns", "primary_key", "checks", "index", "alter", "partitioned_by", "partition_by",
                       "constraints", "tablespace", "if_not_exists", "replace", "comment", "like"]
# column attributes that belong to one dialect and are re-shaped by that dialect's mode (observed, pinned by tests)
DIALECT_COLUMN_KEYS = {"encrypt", "encode", "distkey"}


@st.composite
def gen_case(draw):
    blocks = draw(universe.script(1, 3, kinds=universe.BLOCK_KINDS + ["dtable", "alter", "rtable"]))
    # comments of every style (C08's generator): line pre-processing happens before the mode is applied and must not depend on it
    ops = [draw(c08.comment_op(i)) for i in range(draw(st.sampled_from([0, 0, 1, 2, 3])))]
    return {"src": "gen", "blocks": blocks, "layout": draw(gen.layout(max_len=40)), "group": draw(st.booleans()), "norm": draw(st.booleans()), "ops": ops}


@st.composite
def corpus_case(draw):
    return {"src": "corpus", "item": draw(st.integers(0, len(universe.corpus()) - 1)), "group": draw(st.booleans()), "norm": draw(st.booleans())}


def flatten(result):
    """-> (entities in order, bucket layout, comments)"""
    if isinstance(result, dict):
        ents, layout = [], []
        for k, v in result.items():
            if k == "comments":
                continue
            layout.append((k, len(v)))
            ents.extend(v)
        return ents, layout, result.get("comments")
    ents = [e for e in result if not (isinstance(e, dict) and set(e) == {"comments"})]
    com = [e["comments"] for e in result if isinstance(e, dict) and set(e) == {"comments"}]
    return ents, None, com


class Diff(Exception):
    pass


def project(ref, got, mode, path, column_level=False):
    """every key / element of the default-mode value must be present and equal in the mode's value; the mode may add keys"""
    if isinstance(ref, dict):
        if not isinstance(got, dict):
            raise Diff("%s: %r became %r" % (path, ref, got))
        is_column = "name" in ref and "type" in ref and "nullable" in ref
        for k, v in ref.items():
            if is_column and k in DIALECT_COLUMN_KEYS:
                continue
            k2 = k
            if mode == "bigquery" and k == "schema" and k not in got:
                k2 = "dataset"
            if k2 not in got:
                raise Diff("%s: key %r is missing in mode %s" % (path, k, mode))
            project(v, got[k2], mode, "%s.%s" % (path, k))
    elif isinstance(ref, (list, tuple)):
        if not isinstance(got, (list, tuple)) or len(ref) != len(got):
            raise Diff("%s: %r became %r" % (path, ref, got))
        for i, (a, b) in enumerate(zip(ref, got)):
            project(a, b, mode, "%s[%d]" % (path, i))
    elif ref != got or type(ref) is not type(got):
        raise Diff("%s: %r became %r" % (path, ref, got))


class C10(Prop):
    id = "C10"
    rule = ("case = a generated script of 1..3 blocks (every statement kind incl. tables with dialect clauses of all ten dialects "
            "and ALTER/INDEX histories) or a regression-corpus script, parsed in all 15 output modes with drawn group_by_type and "
            "normalize_names; relations vs the default mode: no mode raises where 'sql' does not, same entities in the same order "
            "and buckets, each table's common fields equal by recursive projection (schema == dataset in bigquery mode), other "
            "entities equal; frozen placement table: a dialect field is at top level only in its documented modes (with the value "
            "the default mode keeps under table_properties), always-present fields are present; non-trivial = script with a table "
            "that carries a dialect clause or an ALTER; distinct = SHA-1 of the case")
    budgets = {"quick": 1200, "thorough": 40000}
    assumptions = [
        "dialect column attributes encrypt / encode / distkey are re-shaped by the oracle / redshift modes (pinned by existing tests) and not compared",
        "data/dialect_fields.json is the documented placement (frozen from the pinned tree and README); unknown new top-level keys are ignored",
        "corpus scripts that raise in the default mode are only checked for 'same exception type in every mode'",
    ]

    def strategy(self, tier):
        return st.one_of(gen_case(), gen_case(), gen_case(), corpus_case())

    def enumerated(self, tier):
        for i in range(len(universe.corpus())):
            yield {"src": "corpus", "item": i, "group": i % 2 == 0, "norm": i % 3 == 0}

    def text(self, case):
        if case["src"] == "corpus":
            return universe.corpus()[case["item"]]["ddl"]
        text = universe.render_blocks(case["blocks"], case["layout"])
        if case.get("ops"):
            nl = "\r\n" if "\r\n" in text else "\n"
            lines, _, _ = c08.apply_ops(text.split(nl), case["ops"])
            text = nl.join(lines)
        return text

    def describe(self, case):
        d = {"ddl": self.text(case), "group_by_type": case["group"], "normalize_names": case["norm"]}
        if case["src"] == "corpus":
            d["corpus_item"] = universe.corpus()[case["item"]]["src"]
        return d

    def evaluate(self, case):
        out = Outcome()
        ddl = self.text(case)
        kw = {"group_by_type": case["group"], "normalize_names": case["norm"]}
        out.label("src:" + case["src"], "group=%s" % case["group"], "norm=%s" % case["norm"])
        r0 = loader.try_parse(ddl, output_mode="sql", **kw)
        out.parses += 1
        if case["src"] == "gen":
            out.nontrivial = any(b["k"] in ("dtable", "alter") for b in case["blocks"])
        if r0[0] != "ok":
            for mode in MODES[1:]:
                r = loader.try_parse(ddl, output_mode=mode, **kw)
                out.parses += 1
                if r[0] == "ok" or r[1] != r0[1]:
                    out.fail("exception-differs", "sql mode raises %s, mode %s %s; %r" % (r0[1], mode, "returns" if r[0] == "ok" else "raises " + r[1], ddl))
            return out
        e0, lay0, com0 = flatten(r0[1])
        if case["src"] == "corpus":
            out.nontrivial = any(isinstance(e, dict) and (e.get("table_properties") or e.get("alter")) for e in e0)
        for mode in MODES:
            if mode == "sql":
                continue
            r = loader.try_parse(ddl, output_mode=mode, **kw)
            out.parses += 1
            if r[0] != "ok":
                out.fail("mode-raises", "mode %s raises %s: %s where the default mode succeeds; %r" % (mode, r[1], r[2], ddl))
                continue
            e1, lay1, com1 = flatten(r[1])
            if lay0 != lay1 or len(e0) != len(e1) or com0 != com1:
                out.fail("entities-differ", "mode %s: buckets/entity count/comments differ: %r vs %r; %r" % (mode, lay0 or len(e0), lay1 or len(e1), ddl))
                continue
            for n, (a, b) in enumerate(zip(e0, e1)):
                try:
                    if isinstance(a, dict) and "table_name" in a and "columns" in a:
                        self.compare_table(out, a, b, mode, n, ddl)
                    else:
                        project(a, b, mode, "entity[%d]" % n)
                        back = dict(b)
                        if mode == "bigquery" and "dataset" in back and "schema" not in back:
                            back["schema"] = back.pop("dataset")
                        if isinstance(a, dict) and set(back) != set(a):
                            raise Diff("entity[%d]: keys %r became %r" % (n, sorted(a), sorted(b)))
                except Diff as d:
                    out.fail("common-content:" + mode, "%s; %r" % (d, ddl))
                    break
        return out

    def compare_table(self, out, a, b, mode, n, ddl):
        if not (isinstance(b, dict) and "table_name" in b and "columns" in b):
            raise Diff("entity[%d] is a table in the default mode but %r in mode %s" % (n, sorted(b) if isinstance(b, dict) else b, mode))
        for f in COMMON_TABLE_FIELDS:
            if f not in a:
                continue
            f2 = "dataset" if (mode == "bigquery" and f == "schema") else f
            if f2 not in b:
                raise Diff("table[%d]: common field %r is missing in mode %s" % (n, f, mode))
            project(a[f], b[f2], mode, "table[%d].%s" % (n, f))
        if mode == "bigquery" and "schema" in b:
            raise Diff("table[%d]: 'schema' present in bigquery mode (documented name: dataset)" % n)
        props0 = a.get("table_properties") or {}
        for f, info in FIELDS.items():
            documented = mode in info["top_level_when_provided"]
            if f in b and not documented and f not in a:
                out.fail("dialect-field-in-wrong-mode:" + f, "table[%d]: %r appears at top level in mode %s (documented: %s); %r" % (
                    n, f, mode, info["top_level_when_provided"], ddl))
            if mode in info["always_present"] and f not in b:
                out.fail("dialect-field-missing:" + f, "table[%d]: %r must always be present in mode %s; %r" % (n, f, mode, ddl))
            if f in props0 and f != "dataset":
                # written in the DDL: default mode keeps it under table_properties
                if documented:
                    if f not in b:
                        out.fail("dialect-field-missing:" + f, "table[%d]: %r is written in the DDL but absent from the top level in its mode %s; %r" % (n, f, mode, ddl))
                    else:
                        try:
                            project(props0[f], b[f], mode, "table[%d].%s" % (n, f))
                        except Diff as d:
                            # lines_terminated_by: dialect modes turn the two characters \\n into a line feed (pinned by tests)
                            if not (f == "encode" and mode == "redshift") and f != "lines_terminated_by":
                                out.fail("dialect-field-value:" + f, "%s; %r" % (d, ddl))


PROP = C10()
