"""Shared Hypothesis strategies and token builders for the DDL model (DESIGN.md 2.2).

Cases are plain JSON-able dicts/lists so that a shrunk failure can be saved and replayed without
Hypothesis. Token builders turn a model object into (text, role) tokens for sdpv.render.
"""
import re

from hypothesis import strategies as st

from .render import COMMA, END, EQ, LP, RP, I, K, L, N, T, V, kw, plist

# Grammar keywords of the pinned tree (frozen here on purpose: the generators must not follow the
# code when a change adds or removes a keyword - that is what C06 is there to notice).
GRAMMAR_KEYWORDS = """ADD ALTER ARRAY AS AUTOINCREMENT AUTO_REFRESH BY CACHE CATALOG CHANGE_TRACKING CHECK
CLONE CLUSTER CLUSTERED COLLATE COLLECTION COLUMN COMMENT CONSTRAINT CREATE DATABASE
DATA_RETENTION_TIME_IN_DAYS DEFAULT DEFERRABLE DELETE DOMAIN DROP ENCODE ENCRYPT ENFORCED ENGINE ENUM
ESCAPED EXISTS FILE_FORMAT FOR FOREIGN FORMAT GENERATED IF IN INCREMENT INDEX INHERITS INITIALLY INTO
INVISIBLE ITEMS KEY KEYS LIKE LOCATION MAP MASKING MAXVALUE MAX_DATA_EXTENSION_TIME_IN_DAYS MINVALUE
MODIFY NO NOORDER NOT NULL ON OPTIONS OR ORDER PARTITION PARTITIONED PATTERN POLICY PRIMARY REFERENCES
RENAME REPLACE ROW SALT SCHEMA SEQUENCE SERDE SERDEPROPERTIES SET SKEWED STAGE_FILE_FORMAT START
STORAGE STORED TABLE TABLESPACE TABLE_FORMAT TAG TBLPROPERTIES TERMINATED TEXTIMAGE_ON TYPE UNIQUE
UPDATE USING VISIBLE WITH WITHOUT AUTO_INCREMENT""".split()

# words that are not grammar tokens but steer a production or the line pre-processor
OTHER_SPECIAL = """GO USE INSERT GRANT DELETE AUTO IDENTITY DISTKEY SORTKEY DISTSTYLE MAX CAST TO ONLY
TEMPORARY TEMP EXTERNAL TRANSIENT GLOBAL AUTHORIZATION ASC DESC NULLS FIRST LAST STORED CHARACTER
CHARSET BUCKETS CLUSTERED FIELDS LINES ORGANIZATION ORGANIZE PERIOD SYSTEM_TIME TRUE FALSE DATE_TRUNC
RANGE_BUCKET BIGFILE SMALLFILE NEXT VALUE ENCODE INPUTFORMAT OUTPUTFORMAT DELIMITED BEGIN COMMIT END
SELECT FROM WHERE AND TIMESTAMP_TRUNC DATETIME_TRUNC""".split()

RESERVED = frozenset(w.upper() for w in GRAMMAR_KEYWORDS + OTHER_SPECIAL)

# C06: every grammar keyword except these is accepted as a column name
C06_EXCLUDED = frozenset("LIKE CONSTRAINT FOREIGN PRIMARY INDEX UNIQUE CHECK WITH CLUSTER BY KEY COLLATE AUTOINCREMENT AUTO_INCREMENT".split())

_LETTERS = "abcdefghijklmnopqrstuvwxyz"
_ALNUM = _LETTERS + _LETTERS.upper() + "0123456789_"


def safe_word(w):
    """make an identifier-shaped word harmless: not a keyword, not ARRAY-prefixed"""
    if w.upper() in RESERVED or w.upper().startswith("ARRAY") or w.upper().endswith("_TRUNC"):
        return w + "_q"
    return w


# realistic identifiers: many of them start or end with a word that is (or could become) a keyword, an option word or a lexer
# rule of its own (enabled, disabled_at, validated, collateral, ordered, commented, defaulted, typed, keyed ...)
REALISTIC_NAMES = """enabled disabled_at is_enabled enable_flag disable_reason validated validate_after novalidate_x created_at updated_at
deleted_at order_id ordered_by orders_total user_id username is_active description comment_text commented default_value defaults
status type_id typed key_name keyed index_no indexed primary_flag unique_code uniqueness check_sum checked references_count referenced
constraint_name constrained collateral collated autoincrement_id auto_increment_step increment_by incremental start_date started
cache_size cached maxvalue_hint minvalue_hint cycle_no sequence_no table_ref tablespace_id schema_version database_id domain_name
partition_key partitioned_on cluster_id clustered_at location_id located stored_at storage_class format_code formatted row_count rows_total
serde_name tagged tag_list masking_rule policy_id generated_at always_on identity_no encrypted encode_as salted using_index with_grant
without_time like_count likes into_bucket terminated_by escaped_text items_count keys_count map_id array_len collection_id engine_type
charset_name comment_count replace_flag exists_flag if_null not_null_flag nullable null_count in_stock on_hold on_time update_ts updated
delete_flag deleted drop_date dropped add_date added alter_ts altered rename_to renamed modify_ts modified column_no columns_total
foreign_id foreigner visible_flag invisible_flag go_live use_count used insert_ts inserted grant_id granted setting set_id settled
""".split()
# words of statements the parser does not support (CREATE VIEW / FUNCTION / ROLE ..., SELECT, MERGE, COMMIT ...): not grammar
# keywords, hence ordinary identifiers wherever a name is expected
REALISTIC_NAMES += """role view function procedure trigger extension user group owner policy rule language revoke select merge call
explain vacuum analyze truncate begin commit rollback session transaction package synonym event server publication operator
aggregate""".split()


@st.composite
def plain_ident(draw, min_len=1, max_len=9):
    k = draw(st.integers(0, 24))
    if k < 5:
        w = draw(st.sampled_from(REALISTIC_NAMES))
        if len(w) >= min_len:
            return safe_word(w)
    if k == 24 and max_len >= 9:
        # a long descriptive name (identifier length limits are the database's business, not the parser's)
        a, b, c = draw(st.sampled_from(REALISTIC_NAMES)), draw(st.sampled_from(REALISTIC_NAMES)), draw(st.integers(0, 999))
        return safe_word("%s_%s_%03d_total" % (a, b, c))
    first = draw(st.sampled_from(_LETTERS + _LETTERS.upper() + "_"))
    rest = draw(st.text(alphabet=_ALNUM, min_size=max(0, min_len - 1), max_size=max_len - 1))
    w = first + rest
    if w.strip("_") == "":
        w += "a"
    return safe_word(w)


STYLES = ("plain", "plain", "plain", "dq", "dqsp", "dqdot", "bt", "br")


def quote(word, style):
    if style == "dq":
        return '"%s"' % word
    if style == "dqsp":  # one blank, or two for every third word length
        return '"%s%s%s"' % (word[: max(1, len(word) // 2)], "  " if len(word) % 3 == 0 else " ", word[max(1, len(word) // 2):] or "x")
    if style == "dqdot":  # a dot inside double quotes belongs to the name, it does not qualify it
        return '"%s.%s"' % (word[: max(1, len(word) // 2)], word[max(1, len(word) // 2):] or "x")
    if style == "bt":
        return "`%s`" % word
    if style == "br":
        return "[%s]" % word
    return word


@st.composite
def ident(draw, styles=STYLES):
    w = draw(plain_ident())
    return quote(w, draw(st.sampled_from(styles)))


def norm_name(n):
    return re.sub(r'[\[\]"`]', "", n).lower()


@st.composite
def distinct_names(draw, n, styles=("plain",), avoid=()):
    """n identifiers, pairwise distinct after stripping delimiters and case (constructed, not filtered)"""
    seen = set(norm_name(a) for a in avoid)
    out = []
    for i in range(n):
        w = draw(plain_ident())
        sty = draw(st.sampled_from(styles))
        if norm_name(quote(w, sty)) in seen:
            w += "%du" % i
        while norm_name(quote(w, sty)) in seen:
            w += "u"
        nm = quote(w, sty)
        seen.add(norm_name(nm))
        out.append(nm)
    return out


TYPE_WORDS = [
    "int", "INT", "integer", "bigint", "BIGINT", "smallint", "varchar", "VARCHAR", "Varchar", "char", "text", "TEXT",
    "decimal", "DECIMAL", "numeric", "NUMERIC", "number", "float", "double", "real", "date", "DATE", "timestamp",
    "Timestamp", "datetime", "boolean", "bool", "uuid", "jsonb", "json", "money", "bytea", "nvarchar", "string",
    "STRING", "blob", "serial", "tinyint", "MyType", "geometry_t",
]


@st.composite
def type_and_size(draw, allow_random_word=True):
    if allow_random_word and draw(st.integers(0, 5)) == 0:
        t = draw(plain_ident(min_len=2, max_len=8))
    else:
        t = draw(st.sampled_from(TYPE_WORDS))
    kind = draw(st.integers(0, 5))
    if kind <= 2:
        size = None
    elif kind <= 4:
        size = [draw(st.one_of(st.integers(0, 300), st.integers(0, 70000)))]
    else:
        size = [draw(st.integers(0, 40)), draw(st.integers(0, 20))]
    return t, size


def size_tokens(size):
    if not size:
        return []
    return plist([[N(x)] for x in size])


def expected_size(size):
    if not size:
        return None
    return size[0] if len(size) == 1 else tuple(size)


# literal alphabet that is safe w.r.t. the known findings K1-K4 (no , ( ) word= backslash non-ASCII /* */)
SAFE_LIT_ALPHABET = "abcdefghijklmnopqrstuvwxyzABCDEFGHIJKLMNOPQRSTUVWXYZ0123456789 _-.:;#@!?$%~+*/|&<>[]{}^"


@st.composite
def safe_literal(draw, max_size=12):
    body = draw(st.text(alphabet=SAFE_LIT_ALPHABET, min_size=0, max_size=max_size))
    body = body.replace("/*", "/ *").replace("*/", "* /")
    if draw(st.integers(0, 7)) == 0:
        pos = draw(st.integers(0, len(body)))
        body = body[:pos] + "''" + body[pos:]
    if draw(st.integers(0, 9)) == 0:
        body = draw(st.sampled_from(["NOT NULL", "primary key", "create table", "DEFAULT", "--", "-- x", "#", "a;b -- c #d"]))
    if draw(st.integers(0, 7)) == 0:
        # a run of blanks inside the literal (padding of CHAR defaults, aligned texts) is part of the value
        pos = draw(st.integers(0, len(body)))
        while 0 < pos < len(body) and body[pos - 1] == "'" and body[pos] == "'":
            pos += 1  # never between the two halves of an escaped quote
        body = body[:pos] + " " * draw(st.integers(2, 4)) + body[pos:]
    return "'" + body + "'"


DEFAULT_WORDS = ["now()", "current_timestamp", "CURRENT_TIMESTAMP", "CURRENT_DATE", "TRUE", "false", "uuid_generate_v4()",
                 "getdate()", "sysdate", "1.5", "0.0", "3.14159", "12.50", "-1", "-42"]


@st.composite
def default_value(draw):
    """-> (text as written, expected value)"""
    k = draw(st.integers(0, 10))
    if k == 10:
        # parenthesised default (SQL Server scripts them that way): reported without the parentheses
        if draw(st.booleans()):
            lit = draw(safe_literal())
            return "(" + lit + ")", lit
        digits = draw(st.text(alphabet="0123456789", min_size=1, max_size=12))
        return "(" + digits + ")", int(digits)
    if k <= 2:
        lit = draw(safe_literal())
        return lit, lit
    if k <= 4:
        digits = draw(st.text(alphabet="0123456789", min_size=1, max_size=20))
        return digits, int(digits)
    if k == 5:
        w = draw(st.sampled_from(["NULL", "null", "Null"]))
        return w, "NULL"
    if k == 6:
        w = draw(plain_ident(min_len=2))
        if draw(st.booleans()):
            w += "()"
        return w, w
    w = draw(st.sampled_from(DEFAULT_WORDS))
    return w, w


REF_ACTIONS = [None, "CASCADE", "RESTRICT", "cascade", "Restrict"]


@st.composite
def reference(draw, styles=("plain",)):
    sch = draw(st.one_of(st.none(), ident(styles=styles)))
    tbl = draw(ident(styles=styles))
    col = draw(ident(styles=styles))
    od = draw(st.sampled_from(REF_ACTIONS))
    ou = draw(st.sampled_from(REF_ACTIONS))
    first = draw(st.booleans())
    return {"schema": sch, "table": tbl, "column": col, "on_delete": od, "on_update": ou, "delete_first": first}


def reference_tokens(ref, columns=None):
    toks = K("REFERENCES")
    toks.append(I((ref["schema"] + "." if ref["schema"] else "") + ref["table"]))
    cols = columns if columns is not None else [ref["column"]]
    toks += plist([[I(c)] for c in cols])
    acts = []
    if ref.get("on_delete"):
        acts.append(K("ON", "DELETE") + [V(ref["on_delete"])])
    if ref.get("on_update"):
        acts.append(K("ON", "UPDATE") + [V(ref["on_update"])])
    if not ref.get("delete_first", True):
        acts.reverse()
    for a in acts:
        toks += a
    return toks


def ref_matches(got, ref, column=None):
    """got: parser's references dict; accepts 'column: x' or 'columns: [x]' (DESIGN 3 tolerances)"""
    if not isinstance(got, dict):
        return False
    col = column if column is not None else ref["column"]
    if got.get("table") != ref["table"] or got.get("schema") != ref["schema"]:
        return False
    if got.get("column") != col and got.get("columns") != [col]:
        return False
    return got.get("on_delete") == ref.get("on_delete") and got.get("on_update") == ref.get("on_update")


@st.composite
def column(draw, name, with_ref=True, with_pk=True, name_styles=("plain",)):
    """core-fragment column: name type[(size)] + subset/order of NULL|NOT NULL, DEFAULT, PRIMARY KEY, UNIQUE, REFERENCES"""
    t, size = draw(type_and_size())
    opts = []
    mask = draw(st.integers(0, 31))
    if mask & 1:
        opts.append(["NOTNULL"] if draw(st.integers(0, 2)) else ["NULL"])
    if mask & 2:
        text, exp = draw(default_value())
        opts.append(["DEFAULT", text, exp])
    if mask & 4 and with_pk and draw(st.integers(0, 2)) == 0 and ["NULL"] not in opts:
        opts.append(["PK"])
    if mask & 8 and draw(st.booleans()):
        opts.append(["UNIQUE"])
    if mask & 16 and with_ref and draw(st.booleans()):
        opts.append(["REF", draw(reference(styles=name_styles))])
    opts = draw(st.permutations(opts)) if len(opts) > 1 else opts
    return {"name": name, "type": t, "size": size, "opts": [list(o) for o in opts]}


def column_tokens(col):
    toks = [I(col["name"]), T(col["type"])] + size_tokens(col["size"])
    for o in col["opts"]:
        k = o[0]
        if k == "NOTNULL":
            toks += K("NOT", "NULL")
        elif k == "NULL":
            toks += K("NULL")
        elif k == "DEFAULT":
            text = o[1]
            toks += K("DEFAULT")
            if text.startswith("(") and text.endswith(")"):
                inner = text[1:-1]
                toks += [LP, L(inner) if inner.startswith("'") else N(inner), RP]
            elif text.startswith("'"):
                toks.append(L(text))
            elif text.upper() == "NULL":
                toks.append((text, "K"))
            else:
                toks.append(V(text))
        elif k == "PK":
            toks += K("PRIMARY", "KEY")
        elif k == "UNIQUE":
            toks += K("UNIQUE")
        elif k == "REF":
            if len(o) > 2 and o[2]:  # inline foreign key with a constraint name
                toks += K("CONSTRAINT") + [I(o[2])]
            toks += reference_tokens(o[1])
        elif k == "CHECK":
            # o = ["CHECK", constraint_name|None, [operand tokens as (text, role)]]
            if o[1]:
                toks += K("CONSTRAINT") + [I(o[1])]
            toks += K("CHECK") + [LP] + [tuple(x) for x in o[2]] + [RP]
        elif k == "COMMENT":
            toks += K("COMMENT") + [L(o[1])]
        else:
            raise ValueError(k)
    return toks


def column_expect(col):
    e = {"name": col["name"], "type": col["type"], "size": expected_size(col["size"]), "nullable": True,
         "default": None, "unique": False, "pk": False, "ref": None}
    for o in col["opts"]:
        if o[0] == "NOTNULL":
            e["nullable"] = False
        elif o[0] == "DEFAULT":
            e["default"] = o[2]
        elif o[0] == "PK":
            e["pk"] = True
            e["nullable"] = False
        elif o[0] == "UNIQUE":
            e["unique"] = True
        elif o[0] == "REF":
            e["ref"] = o[1]
    return e


def table_name_tokens(schema, name):
    return [I((schema + "." if schema else "") + name)]


def create_table_tokens(tbl):
    """tbl = {schema, name, items: [ {"col": column} | {"raw": [tokens]} ], pre: [K words], clauses: [[tokens]]}"""
    toks = K("CREATE") + [(w, "K") for w in tbl.get("pre", [])] + K("TABLE")
    if tbl.get("if_not_exists"):
        toks += K("IF", "NOT", "EXISTS")
    toks += table_name_tokens(tbl.get("schema"), tbl["name"])
    items = []
    for it in tbl["items"]:
        if "col" in it:
            items.append(column_tokens(it["col"]))
        else:
            items.append([tuple(x) for x in it["raw"]])
    toks += plist(items)
    for cl in tbl.get("clauses", []):
        toks += [tuple(x) for x in cl]
    toks.append(END)
    return toks


@st.composite
def layout(draw, allow_crlf=True, max_len=40):
    """None (canonical) or a drawn layout; shrinks towards canonical"""
    if draw(st.integers(0, 3)) == 0:
        return None
    sep = draw(st.lists(st.integers(0, 11), min_size=0, max_size=max_len))
    case = draw(st.lists(st.integers(0, 40), min_size=0, max_size=max_len))
    crlf = draw(st.booleans()) if allow_crlf else False
    tail = draw(st.integers(0, 255))
    return {"sep": sep, "case": case, "crlf": crlf, "tail": tail}


def ws_free(s):
    return re.sub(r"\s+", "", s) if isinstance(s, str) else s
