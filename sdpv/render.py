"""Token lists -> DDL text. The renderer, not the model, owns separators and keyword case.

A statement is a list of (text, role) pairs:
  K  keyword the grammar consumes without echoing it (re-cased by layouts)
  V  value word echoed into the output as written (never re-cased)
  I  identifier        T  type text        N  number        L  quoted literal
  P  punctuation ( ) ,   O  operator / other glue-free symbol (= < > etc.)
  S  suffix such as [] : may be glued to the token on its left only
  E  statement terminator ';' (always last token of a statement)

layout = None  -> canonical rendering (one blank between tokens, usual gluing of ( , ) ;)
layout = {"sep": [ints], "case": [ints], "crlf": bool, "tail": int}
        sep[i % len]  chooses the separator of gap i, case[j % len] the spelling of keyword j.
Everything is a pure function of (tokens, layout): no RNG here.

Carve-outs (DESIGN 3, K5/K6): a separator directly in front of a quoted literal never *ends* with a line
break, is never a single tab after a word, and a literal is never glued to a preceding ')' - such draws
are coerced to one blank and counted by the caller through the returned stats.
"""
import re

STATEMENT_WORDS = ("CREATE", "ALTER", "DROP", "SET", "GO", "USE", "INSERT", "GRANT", "DELETE")
_LINE_START_BAD = re.compile(r"(?:%s)\b" % "|".join(STATEMENT_WORDS), re.I)
_COMMENT_START = re.compile(r"(--|#|/\*|\*/)")

# separator table: code -> text ; codes >= GLUE are only legal next to punctuation
SEPS = [" ", "  ", "\t", "\n  ", "\n", "\n\n  ", "", " \t ", "\n\t", "   ", "", "\n    "]
GLUE_CODES = (6, 10)
N_SEP = len(SEPS)


def K(*words):
    return [(w, "K") for w in words]


def kw(text):
    """'NOT NULL' -> [('NOT','K'),('NULL','K')]"""
    return [(w, "K") for w in text.split()]


def I(text):
    return (text, "I")


def T(text):
    return (text, "T")


def V(text):
    return (text, "V")


def N(text):
    return (str(text), "N")


def L(text):
    return (text, "L")


LP, RP, COMMA, END = ("(", "P"), (")", "P"), (",", "P"), (";", "E")
EQ = ("=", "O")


def plist(items):
    """[[tok..],[tok..]] -> ( a , b )"""
    out = [LP]
    for n, it in enumerate(items):
        if n:
            out.append(COMMA)
        out.extend(it if isinstance(it, list) else [it])
    out.append(RP)
    return out


def spell(word, code):
    if code % 8 == 0:
        return word.upper()
    if code % 8 == 1:
        return word.lower()
    if code % 8 == 2:
        return word.capitalize()
    # per-letter pattern from the bits of code
    bits = code * 2654435761 % (1 << 32)
    return "".join(ch.upper() if (bits >> (i % 32)) & 1 else ch.lower() for i, ch in enumerate(word))


def _canonical_sep(prev, cur):
    pt, pr = prev
    ct, cr = cur
    if cr == "E":
        return ""
    if cr == "P" and ct in (",", ")"):
        return ""
    if cr == "S":
        return ""
    if pr == "P" and pt == "(":
        return ""
    if cr == "P" and ct == "(" and pr in ("T",):
        return ""
    return " "


def render_statement(tokens, layout=None, gap0=0, kw0=0, stats=None):
    """-> text of one statement (without trailing newline). gap0/kw0: running indices into layout."""
    out = []
    gi, ki = gap0, kw0
    seps = (layout or {}).get("sep") or []
    cases = (layout or {}).get("case") or []
    prev = None
    for tok in tokens:
        text, role = tok
        if role == "K" and cases:
            text = spell(text, cases[ki % len(cases)])
            ki += 1
        elif role == "K":
            ki += 1
        if prev is not None:
            if not seps:
                sep = _canonical_sep(prev, tok)
            else:
                code = seps[gi % len(seps)] % N_SEP
                sep = SEPS[code]
                if code in GLUE_CODES and not (prev[1] == "P" or role in ("P", "E", "S")):
                    sep = " "
                if role == "E" and ("\t" in sep or len(sep) > 1 and "\n" not in sep):
                    sep = " "
                # a line may not start with a statement-level word, a comment marker
                if "\n" in sep and (_LINE_START_BAD.match(tok[0]) or _COMMENT_START.match(tok[0])):
                    sep = " "
                if role == "L":
                    # K5: a line break directly in front of the quote; K6: one tab between a word and the quote (the word may be
                    # glued to a preceding ',' or ')'). Indented line breaks ("\n  ", "\n\t") and blank-padded tabs are fine.
                    if sep.endswith("\n") or (sep == "\t" and prev[1] != "P"):
                        if stats is not None:
                            stats["K5K6_coerced"] = stats.get("K5K6_coerced", 0) + 1
                        sep = " "
                    elif sep == "" and prev[0] == ")":
                        if stats is not None:
                            stats["K5K6_coerced"] = stats.get("K5K6_coerced", 0) + 1
                        sep = " "
                # two word-like tokens must stay separated
                if sep == "" and not (prev[1] == "P" or role in ("P", "E", "S")):
                    sep = " "
            out.append(sep)
            gi += 1
        out.append(text)
        prev = tok
    return "".join(out), gi, ki


def render_parts(statements, layout=None, stats=None):
    """-> one text per statement (incl. its line end); ''.join(parts) is the script"""
    parts = []
    gi = ki = 0
    tail = (layout or {}).get("tail", 0)
    crlf = (layout or {}).get("crlf")
    for n, st in enumerate(statements):
        if isinstance(st, str):
            text = st.rstrip("\n")
        else:
            text, gi, ki = render_statement(st, layout, gi, ki, stats)
        text += "\n\n" if (tail >> (n % 16)) & 1 else "\n"
        parts.append(text.replace("\n", "\r\n") if crlf else text)
    return parts


def render_script(statements, layout=None, stats=None):
    """statements: list of token lists (each ending with END) or raw strings (emitted verbatim).
    Every statement ends with ';' at the end of a line."""
    return "".join(render_parts(statements, layout, stats))


def layout_differences(tokens_list, layout):
    """count (gaps that differ from canonical, keywords not upper, line breaks inside statements, glued)"""
    if not layout:
        return {"gaps": 0, "kw": 0, "breaks": 0, "glued": 0}
    canon = render_script(tokens_list, None)
    text = render_script(tokens_list, layout)
    kwd = 0
    ki = 0
    cases = layout.get("case") or []
    for st in tokens_list:
        if isinstance(st, str):
            continue
        for t, r in st:
            if r == "K":
                if cases and spell(t, cases[ki % len(cases)]) != t.upper():
                    kwd += 1
                ki += 1
    body = text.replace("\r\n", "\n")
    breaks = 0
    for stmt in body.split(";\n"):
        breaks += stmt.strip("\n").count("\n")
    glued = len(re.findall(r"\S[,()]\S", body)) - len(re.findall(r"\S[,()]\S", canon))
    gaps = sum(1 for a, b in zip(re.split(r"\S+", body), re.split(r"\S+", canon)) if a != b)
    return {"gaps": gaps, "kw": kwd, "breaks": breaks, "glued": max(glued, 0)}


def strip_delims(name):
    if name is not None and len(name) > 2:
        for a, b in (("`", "`"), ('"', '"'), ("[", "]")):
            if name.startswith(a) and name.endswith(b):
                return name[1:-1]
    return name
