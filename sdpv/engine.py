"""Search engine shared by all checks: seeded Hypothesis shards on all cores, collect-then-shrink,
fixed/replay tier, known findings, evidence file, exit codes (DESIGN.md 2.4).

exit 0  property held on everything explored
exit 1  violation (one line 'VIOLATION property=<id> replay=<path>' per new root-cause bucket)
exit 2  harness / infrastructure error (never a violation)
"""
import collections
import hashlib
import importlib
import json
import multiprocessing
import os
import re
import sys
import time
import traceback

from . import loader

VERIF = os.path.dirname(os.path.dirname(os.path.abspath(__file__)))
EVIDENCE_DIR = os.environ.get("SDPV_EVIDENCE_DIR") or os.path.join(VERIF, "evidence")
REPLAY_DIR = os.environ.get("SDPV_REPLAY_DIR") or os.path.join(VERIF, "replays")
KNOWN_FILE = os.path.join(VERIF, "known_findings.json")
WORKERS = int(os.environ.get("VERIF_WORKERS", "16"))
CHUNK = int(os.environ.get("SDPV_CHUNK", "1500"))
SHAPE_ERRORS = (KeyError, TypeError, IndexError, AttributeError, ValueError, AssertionError)


class Outcome:
    """Result of evaluating one case."""

    __slots__ = ("violations", "nontrivial", "labels", "excluded", "parses")

    def __init__(self):
        self.violations = []  # list of (bucket, message)
        self.nontrivial = False
        self.labels = []
        self.excluded = None  # name of the known-finding carve-out that removed this case
        self.parses = 0

    def fail(self, bucket, message=""):
        self.violations.append((bucket, str(message)[:1500]))

    def label(self, *names):
        self.labels.extend(names)


class compare:
    """with compare(out, 'bucket'): ...   - an unexpected result shape inside the block is a violation
    of the property (the documented structure is missing), not a harness error."""

    def __init__(self, out, bucket):
        self.out, self.bucket = out, bucket

    def __enter__(self):
        return self

    def __exit__(self, et, ev, tb):
        if et is not None and issubclass(et, SHAPE_ERRORS):
            self.out.fail("shape:" + self.bucket, "%s: %s" % (et.__name__, ev))
            return True
        return False


class Prop:
    id = "C00"
    level = "exploration"
    rule = ""
    assumptions = []
    budgets = {"quick": 2000, "thorough": 100000}
    shrink_seconds = 150
    sample_count = 6

    def strategy(self, tier):
        raise NotImplementedError

    def evaluate(self, case):
        raise NotImplementedError

    def enumerated(self, tier):
        """deterministic sweep cases (evaluated in every run, sharded)"""
        return []

    def fixed_cases(self):
        """hand-written regression cases: list of (name, case)"""
        return []

    def describe(self, case):
        return case

    def extra_coverage(self, tier):
        return {}

    machine_share = 0.25  # stateful machine runs per shard, as a share of the shard's example budget
    machine_steps = {"quick": 8, "thorough": 16}

    def machine(self, tier, collector):
        """optional: a hypothesis.stateful.RuleBasedStateMachine class for history properties"""
        return None

    def prepare(self, tier):
        """once, in the parent, before forking"""

    def finish(self, tier, merged):
        """once, in the parent, after the search: may add violations -> list of (bucket, message, case)"""
        return []


def fingerprint(case):
    return hashlib.sha1(json.dumps(case, sort_keys=True, default=str).encode()).digest()[:8]


def slug(text):
    return re.sub(r"[^A-Za-z0-9_.-]+", "_", text)[:80].strip("_") or "x"


def get_prop(pid):
    mod = importlib.import_module("sdpv.props.%s" % pid.lower())
    return mod.PROP


# ------------------------------------------------------------------ shard execution (worker side)


class _Collector:
    def __init__(self, prop, target=None):
        self.prop = prop
        self.target = target
        self.evals = 0
        self.parses = 0
        self.nontrivial = set()
        self.labels = collections.Counter()
        self.excluded = collections.Counter()
        self.samples = []
        self.viol = {}
        self.smallest = None
        self.chunk = None  # (seed, size) of the Hypothesis run that is generating right now
        self.t0 = time.time()

    def body(self, case):
        return self.record(case, self.prop.evaluate(case))

    def record(self, case, out):
        if out.excluded:
            self.excluded[out.excluded] += 1
            return out
        self.evals += 1
        self.parses += out.parses
        for lb in out.labels:
            self.labels[lb] += 1
        if out.nontrivial:
            fp = fingerprint(case)
            if fp not in self.nontrivial:
                self.nontrivial.add(fp)
                if len(self.samples) < 2:
                    self.samples.append(self.prop.describe(case))
        for bucket, msg in out.violations:
            v = self.viol.get(bucket)
            if v is None:
                self.viol[bucket] = {"count": 1, "case": case, "message": msg, "chunk": self.chunk}
            else:
                v["count"] += 1
                if len(json.dumps(case, default=str)) < len(json.dumps(v["case"], default=str)):
                    v["case"], v["message"] = case, msg
        return out

    def result(self):
        return {
            "evals": self.evals,
            "parses": self.parses,
            "nontrivial": self.nontrivial,
            "labels": self.labels,
            "excluded": self.excluded,
            "samples": self.samples,
            "viol": self.viol,
            "fired": set(loader.FIRED),
            "prod_total": loader._COV["total"],
            "prod_all": list(loader._COV.get("all", [])),
        }


def _hyp_run(prop, tier, seed, n, body, shrink=False):
    import hypothesis
    from hypothesis import HealthCheck, Phase, Verbosity, given, settings

    phases = [Phase.generate, Phase.shrink] if shrink else [Phase.generate]

    @hypothesis.seed(seed)
    @settings(
        max_examples=n,
        database=None,
        deadline=None,
        derandomize=False,
        report_multiple_bugs=False,
        suppress_health_check=list(HealthCheck),
        phases=phases,
        verbosity=Verbosity.quiet,
        print_blob=False,
    )
    @given(prop.strategy(tier))
    def t(case):
        body(case)

    t()


def _machine_run(machine, prop, tier, seed, n):
    """Hypothesis stateful mode (RuleBasedStateMachine): rules are the operations, invariants run after every step. The machine
    records violations in the collector (as replayable history cases) instead of raising, so the search goes on (collect, then shrink)."""
    import hypothesis
    from hypothesis import HealthCheck, Phase, Verbosity, settings
    from hypothesis.stateful import run_state_machine_as_test

    run_state_machine_as_test(
        hypothesis.seed(seed + 500)(machine),
        settings=settings(max_examples=n, stateful_step_count=prop.machine_steps[tier], database=None, deadline=None, derandomize=False,
                          report_multiple_bugs=False, suppress_health_check=list(HealthCheck), phases=[Phase.generate], verbosity=Verbosity.quiet,
                          print_blob=False),
    )


def _shard(args):
    pid, tier, seed, idx, nshards, n_examples = args
    try:
        os.environ["PYTHONHASHSEED"] = "0"
        prop = get_prop(pid)
        col = _Collector(prop)
        # deterministic sweep, sharded by index
        for k, case in enumerate(prop.enumerated(tier)):
            if k % nshards == idx:
                col.body(case)
        # Hypothesis keeps a tree of everything it has generated in one run; large budgets are therefore split into chunks with
        # their own derived seeds, which bounds the memory of a shard and changes nothing else
        done, k = 0, 0
        while done < n_examples:
            n = min(CHUNK, n_examples - done)
            col.chunk = (seed + 104729 * k, n)
            _hyp_run(prop, tier, seed + 104729 * k, n, col.body)
            done += n
            k += 1
        machine = prop.machine(tier, col) if n_examples > 0 else None
        if machine is not None:
            _machine_run(machine, prop, tier, seed, max(1, int(n_examples * prop.machine_share)))
        res = col.result()
        res["shard"] = idx
        res["seed"] = seed
        return res
    except BaseException:
        return {"error": traceback.format_exc(), "shard": idx, "seed": seed}


class _StopShrink(BaseException):
    pass


def _shrink(args):
    """re-run one shard's seed, failing only for `bucket`, let Hypothesis shrink inside the bucket."""
    pid, tier, seed, n_examples, bucket, seconds = args
    try:
        prop = get_prop(pid)
        state = {"best": None, "msg": "", "t0": time.time(), "calls": 0}

        def body(case):
            state["calls"] += 1
            if state["best"] is not None and time.time() - state["t0"] > seconds:
                raise _StopShrink()
            out = prop.evaluate(case)
            if out.excluded:
                return
            for b, msg in out.violations:
                if b == bucket:
                    size = len(json.dumps(case, default=str))
                    if state["best"] is None or size <= state["best"][0]:
                        state["best"] = (size, case)
                        state["msg"] = msg
                    raise AssertionError(bucket)

        try:
            _hyp_run(prop, tier, seed, n_examples, body, shrink=True)
        except _StopShrink:
            pass
        except AssertionError:
            pass
        except BaseException as e:  # Hypothesis wraps some failures (Flaky etc.)
            if state["best"] is None:
                return {"error": traceback.format_exc()}
        if state["best"] is None:
            return {"case": None}
        return {"case": state["best"][1], "message": state["msg"], "calls": state["calls"]}
    except BaseException:
        return {"error": traceback.format_exc()}


# ------------------------------------------------------------------ parent side


def load_known(pid):
    if not os.path.exists(KNOWN_FILE):
        return []
    with open(KNOWN_FILE) as f:
        data = json.load(f)
    return [e for e in data.get("findings", []) if e.get("property") == pid]


def write_replay(pid, bucket, case, message, prop, tier, seed):
    os.makedirs(REPLAY_DIR, exist_ok=True)
    path = os.path.join(REPLAY_DIR, "%s_%s.json" % (pid, slug(bucket)))
    try:
        desc = prop.describe(case)
    except Exception:
        desc = None
    with open(path, "w") as f:
        json.dump(
            {"property": pid, "bucket": bucket, "message": message, "case": case, "described": desc,
             "tier": tier, "seed": seed},
            f, indent=1, default=str,
        )
    return path


def run_replay(pid, path):
    prop = get_prop(pid)
    loader.load()
    prop.prepare("quick")
    with open(path) as f:
        data = json.load(f)
    case = data["case"] if isinstance(data, dict) and "case" in data else data
    out = prop.evaluate(case)
    if out.violations:
        for b, m in out.violations:
            print("  bucket=%s %s" % (b, m))
        print("VIOLATION property=%s replay=%s" % (pid, path))
        return 1
    print("replay %s: property %s holds on this case" % (path, pid))
    return 0


def _sharded_search(pid, prop, tier, seed, notes):
    # ---- search: shards on all cores
    total = int(os.environ.get("SDPV_EXAMPLES", prop.budgets[tier]))
    nshards = max(1, min(WORKERS, int(os.environ.get("SDPV_SHARDS", WORKERS))))
    per = (total + nshards - 1) // nshards if total > 0 else 0
    jobs = [(pid, tier, seed * 1000 + i, i, nshards, per) for i in range(nshards)]
    ctx = multiprocessing.get_context("fork")
    with ctx.Pool(nshards) as pool:
        results = pool.map(_shard, jobs, chunksize=1)
        errors = [r for r in results if "error" in r]
        if errors:
            sys.stderr.write("HARNESS ERROR in shard %s (seed %s):\n%s\n" % (errors[0]["shard"], errors[0]["seed"], errors[0]["error"]))
            return None, None, None, None
        merged = {
            "evals": sum(r["evals"] for r in results),
            "parses": sum(r["parses"] for r in results),
            "nontrivial": set().union(*[r["nontrivial"] for r in results]),
            "labels": sum((r["labels"] for r in results), collections.Counter()),
            "excluded": sum((r["excluded"] for r in results), collections.Counter()),
            "samples": [s for r in results for s in r["samples"]],
            "fired": set().union(*[r["fired"] for r in results]),
            "prod_total": max(r["prod_total"] for r in results),
            "prod_all": max((r.get("prod_all", []) for r in results), key=len),
        }
        buckets = {}
        for r in results:
            for b, v in r["viol"].items():
                cur = buckets.get(b)
                if cur is None:
                    ch = v.get("chunk") or (r["seed"], per)
                    buckets[b] = dict(v, seed=ch[0], n=ch[1])
                else:
                    cur["count"] += v["count"]
        # ---- phase B: shrink up to 3 new buckets with Hypothesis
        todo = sorted(buckets.items(), key=lambda kv: -kv[1]["count"])
        shrink_jobs = [(pid, tier, v["seed"], v.get("n", per), b, prop.shrink_seconds) for b, v in todo[:3]]
        if shrink_jobs and os.environ.get("SDPV_NO_SHRINK") != "1" and per > 0:
            shrunk = pool.map(_shrink, shrink_jobs, chunksize=1)
            for (b, v), s in zip(todo[:3], shrunk):
                if s.get("case") is not None:
                    v["case"], v["message"] = s["case"], s.get("message", v["message"])
                elif s.get("error"):
                    notes.append("shrink of %s failed: %s" % (b, s["error"].strip().splitlines()[-1]))
    return merged, buckets, total, nshards


def run_check(pid, tier, seed):
    t0 = time.time()
    prop = get_prop(pid)
    loader.load()
    loader.enable_production_coverage(os.environ.get("SDPV_PRODCOV", "1") == "1")
    prop.prepare(tier)
    violations = []  # (bucket, message, case, count)
    known_reproduced = []
    notes = []
    fixed_run = 0

    # ---- replay tier: known findings, fixed findings, hand-written cases (bypass Hypothesis)
    for entry in load_known(pid):
        case = entry.get("case")
        if case is None:
            continue
        out = prop.evaluate(case)
        fixed_run += 1
        if entry.get("status") == "known":
            if out.violations:
                print("KNOWN-FINDING: property=%s %s [%s]" % (pid, entry.get("what", ""), entry.get("id", "")))
                known_reproduced.append(entry.get("id"))
            else:
                notes.append("known finding %s no longer reproduces" % entry.get("id"))
        else:  # fixed: suppresses nothing, must hold
            for b, m in out.violations:
                violations.append(("fixed-regressed:%s:%s" % (entry.get("id"), b), m, case, 1))
    for name, case in prop.fixed_cases():
        out = prop.evaluate(case)
        fixed_run += 1
        for b, m in out.violations:
            violations.append(("fixed-case:%s:%s" % (name, b), m, case, 1))

    if getattr(prop, "custom_run", None):
        # checks that orchestrate whole interpreters themselves (C20): same reporting, own search
        merged = {"evals": 0, "parses": 0, "nontrivial": set(), "labels": collections.Counter(), "excluded": collections.Counter(),
                  "samples": [], "fired": set(), "prod_total": loader._COV["total"]}
        res = prop.custom_run(tier, seed)
        merged.update({k: res[k] for k in res if k in merged})
        buckets = {}
        for b, m, case in res.get("violations", []):
            buckets.setdefault(b, {"count": 0, "case": case, "message": m})["count"] += 1
        total, nshards = res.get("examples_requested", 0), res.get("shards", 1)
    else:
        merged, buckets, total, nshards = _sharded_search(pid, prop, tier, seed, notes)
        if merged is None:
            return 2
    for b, v in buckets.items():
        violations.append((b, v["message"], v["case"], v["count"]))
    for b, m, case in prop.finish(tier, merged) or []:
        violations.append((b, m, case, 1))

    # ---- report
    wall = time.time() - t0
    replay_paths = []
    for b, m, case, count in violations:
        path = write_replay(pid, b, case, m, prop, tier, seed)
        replay_paths.append(path)
        print("  bucket=%s count=%d %s" % (b, count, m[:400]))
        print("VIOLATION property=%s replay=%s" % (pid, path))
    for n in notes:
        print("NOTE: " + n)

    coverage = {
        "evaluations": merged["evals"] + fixed_run,
        "distinct_nontrivial": len(merged["nontrivial"]),
        "rule": prop.rule,
        "samples": merged["samples"][: prop.sample_count],
        "parser_runs": merged["parses"],
        "class_histogram": dict(sorted(merged["labels"].items())),
        "excluded_by_known_finding": dict(merged["excluded"]),
        "productions_fired": len(merged["fired"]),
        "productions_total": merged["prod_total"],
        "productions_not_fired": sorted(set(merged.get("prod_all", [])) - set(merged["fired"])),
        "known_findings_reproduced": known_reproduced,
        "fixed_and_replay_cases": fixed_run,
        "shards": nshards,
        "examples_requested": total,
        "hypothesis_version": __import__("hypothesis").__version__,
        "violation_buckets": [b for b, _, _, _ in violations],
        "notes": notes,
    }
    coverage.update(prop.extra_coverage(tier) or {})
    evidence = {
        "property_id": pid,
        "tier": tier,
        "seed": seed,
        "level": prop.level,
        "coverage": coverage,
        "assumptions": list(prop.assumptions),
        "wall_s": round(wall, 2),
        "violations": len(violations),
    }
    os.makedirs(EVIDENCE_DIR, exist_ok=True)
    with open(os.path.join(EVIDENCE_DIR, "%s.json" % pid), "w") as f:
        json.dump(evidence, f, indent=1, default=str)
    print(
        "%s %s seed=%d: %d cases (%d distinct non-trivial, %d parser runs, %d excluded by carve-outs), "
        "%d/%d productions, %d violation bucket(s), %.1fs"
        % (pid, tier, seed, coverage["evaluations"], coverage["distinct_nontrivial"], merged["parses"],
           sum(merged["excluded"].values()), len(merged["fired"]), merged["prod_total"], len(violations), wall)
    )
    if merged["evals"] == 0 and total > 0:
        sys.stderr.write("HARNESS ERROR: no case was evaluated\n")
        return 2
    return 1 if violations else 0
