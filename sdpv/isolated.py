"""Isolated reference evaluations for the history checks (C14, C15).

A *zygote* process is forked from the check's parent right after the code under test has been imported (before any other
parse). It listens on a Unix socket; for every request it forks a child that constructs one parser, runs it once, sends the
outcome back and exits. Every reference value therefore comes from a process in which exactly one parser object ever existed
- no state of earlier requests, of other objects or of the history under test can reach it.
"""
import os
import pickle
import signal
import socket
import struct
import sys
import tempfile
import traceback

_STATE = {"path": None, "pid": None, "owner": None}


def _send(sock, obj):
    data = pickle.dumps(obj, protocol=4)
    sock.sendall(struct.pack("!I", len(data)) + data)


def _recv(sock):
    head = b""
    while len(head) < 4:
        chunk = sock.recv(4 - len(head))
        if not chunk:
            raise EOFError("isolated reference process closed the connection")
        head += chunk
    n = struct.unpack("!I", head)[0]
    buf = b""
    while len(buf) < n:
        chunk = sock.recv(min(65536, n - len(buf)))
        if not chunk:
            raise EOFError("isolated reference process closed the connection")
        buf += chunk
    return pickle.loads(buf)


def evaluate(request):
    """request = {"ddl", "ctor": {...}, "run": {...}} -> ('ok', result) | ('exc', type name, message, mro names)"""
    from . import loader

    try:
        p = loader.make_parser(request["ddl"], **request.get("ctor", {}))
        return ("ok", p.run(**request.get("run", {})))
    except Exception as e:
        return ("exc", type(e).__name__, str(e)[:600], [c.__name__ for c in type(e).__mro__])


def _serve(server):
    signal.signal(signal.SIGCHLD, signal.SIG_IGN)  # children are reaped automatically
    while True:
        try:
            conn, _ = server.accept()
        except OSError:
            os._exit(0)
        pid = os.fork()
        if pid == 0:
            try:
                server.close()
                req = _recv(conn)
                if req == "quit":
                    _send(conn, "bye")
                else:
                    _send(conn, evaluate(req))
            except BaseException:
                try:
                    _send(conn, ("harness", traceback.format_exc()))
                except BaseException:
                    pass
            finally:
                os._exit(0)
        conn.close()


def start():
    """fork the zygote (call once, in the parent, right after loader.load())"""
    if _STATE["pid"]:
        return
    d = tempfile.mkdtemp(prefix="sdpv_iso_")
    path = os.path.join(d, "ref.sock")
    server = socket.socket(socket.AF_UNIX, socket.SOCK_STREAM)
    server.bind(path)
    server.listen(64)
    pid = os.fork()
    if pid == 0:
        try:
            _serve(server)
        finally:
            os._exit(0)
    server.close()
    _STATE.update(path=path, pid=pid, owner=os.getpid())
    import atexit

    atexit.register(stop)


def stop():
    if _STATE["pid"] and _STATE["owner"] == os.getpid():
        try:
            os.kill(_STATE["pid"], signal.SIGTERM)
            os.waitpid(_STATE["pid"], 0)
        except OSError:
            pass
        try:
            os.remove(_STATE["path"])
            os.rmdir(os.path.dirname(_STATE["path"]))
        except OSError:
            pass
        _STATE.update(path=None, pid=None)


_CACHE = {}


def reference(ddl, ctor=None, run=None, cache=True):
    """isolated value of DDLParser(ddl, **ctor).run(**run)"""
    if not _STATE["path"]:
        raise RuntimeError("isolated.start() was not called")
    key = None
    if cache:
        key = (ddl, tuple(sorted((ctor or {}).items())), tuple(sorted((run or {}).items())))
        if key in _CACHE:
            return pickle.loads(_CACHE[key])
    s = socket.socket(socket.AF_UNIX, socket.SOCK_STREAM)
    s.connect(_STATE["path"])
    try:
        _send(s, {"ddl": ddl, "ctor": ctor or {}, "run": run or {}})
        res = _recv(s)
    finally:
        s.close()
    if res and res[0] == "harness":
        raise RuntimeError("isolated reference failed:\n" + res[1])
    if key is not None:
        if len(_CACHE) > 2000:
            _CACHE.clear()
        _CACHE[key] = pickle.dumps(res, protocol=4)
    return res
