#!/venv/bin/python
"""Usage: run_check.py <C01..C20> [--tier quick|thorough] [--seed N] [--replay FILE]

Honours VERIF_TIER and VERIF_SEED. Exit 0 held / 1 violation / 2 harness error.
"""
import argparse
import os
import sys
import traceback

HERE = os.path.dirname(os.path.abspath(__file__))
sys.path.insert(0, HERE)
DEPS = os.path.join(HERE, ".deps")
if os.path.isdir(DEPS):
    sys.path.append(DEPS)
if os.environ.get("PYTHONHASHSEED") != "0":
    # make every run a pure function of (tree, seed, tier)
    os.environ["PYTHONHASHSEED"] = "0"
    os.execv(sys.executable, [sys.executable] + sys.argv)


def main():
    ap = argparse.ArgumentParser()
    ap.add_argument("prop")
    ap.add_argument("--tier", default=os.environ.get("VERIF_TIER") or "quick", choices=["quick", "thorough"])
    ap.add_argument("--seed", type=int, default=None)
    ap.add_argument("--replay", default=None)
    a = ap.parse_args()
    seed = a.seed
    if seed is None:
        try:
            seed = int(os.environ.get("VERIF_SEED", "1"))
        except ValueError:
            seed = 1
    seed = abs(seed) % (2**31)
    from sdpv import engine, loader

    try:
        if a.replay:
            return engine.run_replay(a.prop.upper(), a.replay)
        return engine.run_check(a.prop.upper(), a.tier, seed)
    except loader.HarnessError as e:
        sys.stderr.write("HARNESS ERROR: %s\n" % e)
        return 2
    except Exception:
        sys.stderr.write("HARNESS ERROR:\n" + traceback.format_exc())
        return 2
    finally:
        loader.cleanup()


if __name__ == "__main__":
    sys.exit(main())
