from probe import *
import random, collections, re
R=random.Random(202)
def ws(s): return re.sub(r'\s+','',s)
def gen():
    n=R.randint(2,7)
    names=R.sample(['id','a','b','c','d','Code','x1','y_2','Zed','"Q r"','[br]','`bt`'],n)
    model={nm:{'unique':False,'ref':None,'nn':False,'check':None,'pk':False} for nm in names}
    items=[]
    for nm in names:
        opts=[]
        if R.random()<.3: opts.append('NOT NULL'); model[nm]['nn']=True
        if R.random()<.15: opts.append('UNIQUE'); model[nm]['unique']=True
        if R.random()<.2:
            sch=R.choice([None,'rs']); od=R.choice([None,'CASCADE','RESTRICT']); ou=R.choice([None,'CASCADE'])
            s=f"REFERENCES {sch+'.' if sch else ''}rt (rc)"+(f" ON DELETE {od}" if od else '')+(f" ON UPDATE {ou}" if ou else '')
            opts.append(s); model[nm]['ref']=(sch,'rt','rc',od,ou)
        if R.random()<.15:
            cn=R.choice([None,'cc_'+str(len(items))]); st=f"{nm} > 0"
            opts.append((f"CONSTRAINT {cn} " if cn else '')+f"CHECK ({st})"); model[nm]['check']=(cn,st)
        R.shuffle(opts)
        items.append([nm,"int "+' '.join(opts)])
    exp={'pk':[], 'named':collections.defaultdict(list), 'single_uq_unnamed':set(), 'multi_only':set(), 'named_single':set(), 'checks':[], 'fk_cols':{}, 'fk_named':[]}
    tl=[]
    pk_kind=R.choice(['none','inline','table','named'])
    if pk_kind=='inline':
        nm=R.choice(names); [it for it in items if it[0]==nm][0][1]+=' PRIMARY KEY'; exp['pk']=[nm]
    elif pk_kind in('table','named'):
        pkc=R.sample(names,R.randint(1,min(3,n)))
        if pk_kind=='table': tl.append(f"PRIMARY KEY ({', '.join(pkc)})")
        else: tl.append(f"CONSTRAINT pk_t PRIMARY KEY ({', '.join(pkc)})"); exp['named']['primary_keys'].append(('pk_t',pkc))
        exp['pk']=pkc
    in_multi=set(); 
    for j in range(R.randint(0,3)):
        uc=R.sample(names,R.randint(1,min(4,n))); nmd=R.random()<.5
        if nmd: tl.append(f"CONSTRAINT uq{j} UNIQUE ({', '.join(uc)})"); exp['named']['uniques'].append((f'uq{j}',uc))
        else: tl.append(f"UNIQUE ({', '.join(uc)})")
        if len(uc)==1:
            (exp['named_single'] if nmd else exp['single_uq_unnamed']).add(uc[0])
        else: in_multi.update(uc)
    exp['in_multi']=in_multi
    for j in range(R.randint(0,2)):
        nm=R.choice(names); st=f"{nm} < {100+j}"; nmd=R.random()<.5
        tl.append((f"CONSTRAINT ck{j} " if nmd else '')+f"CHECK ({st})"); exp['checks'].append((f'ck{j}' if nmd else None,st))
    if R.random()<.4:
        free=[nm for nm in names if not model[nm]['ref']]
        if free:
            fc=R.sample(free,R.randint(1,min(3,len(free)))); rc=[f"r{i}" for i in range(len(fc))]; nmd=R.random()<.5; od=R.choice([None,'CASCADE'])
            tl.append((f"CONSTRAINT fk1 " if nmd else '')+f"FOREIGN KEY ({', '.join(fc)}) REFERENCES rs.rt2 ({', '.join(rc)})"+(f" ON DELETE {od}" if od else ''))
            if nmd: exp['fk_named'].append(('fk1',fc,rc,od))
            else:
                for f,r_ in zip(fc,rc): exp['fk_cols'][f]=('rs','rt2',r_,od,None)
    body=[f"{nm} {rest}".strip() for nm,rest in items]
    for t in tl:
        pos=R.randint(1,len(body)) if R.random()<.4 else len(body)
        body.insert(pos,t)
    return names,model,exp,"CREATE TABLE t (\n  "+",\n  ".join(body)+"\n);"
cnt=collections.Counter(); ex={}
def fail(k,*v):
    cnt[k]+=1; ex.setdefault(k,v)
for i in range(15000):
    names,model,exp,ddl=gen()
    try: r=P(ddl)
    except Exception as e: fail(('EXC',type(e).__name__),ddl,str(e)); continue
    if len(r)!=1 or 'columns' not in r[0]: fail('noresult',ddl); continue
    e=r[0]; cols={c['name']:c for c in e['columns']}
    if list(cols)!=names: fail('names',ddl,list(cols)); continue
    if e['primary_key']!=exp['pk']: fail('pk',ddl,e['primary_key'],exp['pk'])
    for nm in names:
        c=cols[nm]
        must = model[nm]['unique'] or nm in exp['single_uq_unnamed']
        mustnot = (not must) and nm not in exp['named_single']
        if must and not c['unique'] and not (not model[nm]['unique'] and ddl.index('UNIQUE ('+nm+')')<ddl.index('\n  '+nm+' int')): fail('unique missing',ddl,nm)
        if mustnot and c['unique']: fail('unique invented',ddl,nm)
        en = not (model[nm]['nn'] or nm in exp['pk'])
        if c['nullable']!=en: fail('nullable',ddl,nm,c['nullable'])
        ref=model[nm]['ref'] or exp['fk_cols'].get(nm)
        g=c['references']
        if ref:
            if not g or (g['schema'],g['table'],g['on_delete'],g['on_update'])!=(ref[0],ref[1],ref[3],ref[4]) or (g.get('column')!=ref[2] and g.get('columns')!=[ref[2]]): fail('ref',ddl,nm,g)
        elif g is not None: fail('ref invented',ddl,nm,g)
        ck=model[nm]['check']; gc=c['check']
        if ck:
            if ck[0] is None:
                if not isinstance(gc,str) or ws(gc)!=ws(ck[1]): fail('col check',ddl,nm,gc)
            else:
                if not isinstance(gc,dict) or gc.get('constraint_name')!=ck[0] or ws(str(gc.get('statement')))!=ws(ck[1]): fail('col check named',ddl,nm,gc)
        elif gc is not None: fail('check invented',ddl,nm,gc)
    gchecks=[(x['constraint_name'],ws(x['statement'])) for x in e['checks']]
    if sorted(gchecks,key=str)!=sorted([(n_,ws(s)) for n_,s in exp['checks']],key=str): fail('checks',ddl,gchecks,exp['checks'])
    cons=e.get('constraints',{})
    for key in ('primary_keys','uniques'):
        g=[(x['constraint_name'],x['columns']) for x in cons.get(key,[]) if not str(x['constraint_name']).startswith('UC_')]
        if sorted(g,key=str)!=sorted(exp['named'].get(key,[]),key=str): fail(('named',key),ddl,g,exp['named'].get(key))
    gr=[(x['constraint_name'],x['name'] if isinstance(x['name'],list) else [x['name']],x['columns'],x['on_delete']) for x in cons.get('references',[])]
    if gr!=[(a,b,c_,d) for a,b,c_,d in exp['fk_named']]: fail('named fk',ddl,gr,exp['fk_named'])
    cnt['ok']+=1
print(cnt)
for k,v in ex.items(): print(k); [print('    ',str(x)[:700]) for x in v]
