from probe import *
import random, re, string, collections
R=random.Random(77)
PUNCT = ";:<>[]{}\"`@&|!?$%~+-*/.#_ ,)=("
WORDS = ["NOT NULL","primary key","create table","select","DEFAULT","x","abc","Zq9","--","#","it''s","''"," ","  ","a b","100%","1,2","a,b","k=v"]
near_quote = re.compile(r"\w*[\\']*\w*'")
QB = r"((?!\'[\w]*[\\']*[\w]*)"
QA = r"((?![\w]*[\\']*[\w]*\')))"
def simulate(data):
    num=0
    for symbol, replace_to in [(r"(,)+", " , "),(r"((\()){1}", " ( "),(r"((\))){1}", " ) ")]:
        num+=1
        qa = QA.replace(")))", "))*)") if num==2 else QA
        data = re.sub(QB+symbol+qa, replace_to, data)
    return data
def carve(body, tpl=None):
    lit="'"+body+"'"
    if simulate("x "+lit+" y") != "x "+lit+" y": return 'K1'
    if re.search(r"\b=", body): return 'K2'
    if any(ord(c)>126 or ord(c)<32 or c=='\\' for c in body): return 'K3'
    if '/*' in body or '*/' in body: return 'K4'
    return None
def carve_old(body):
    # body: literal content without outer quotes (may contain '')
    lit = "'" + body + "'"
    if '(' in body: return 'K1('
    for m in re.finditer(r"[,)]+", body):
        rest = lit[1+m.end():]
        if not near_quote.match(rest): return 'K1,)'
    if re.search(r"\b=", body): return 'K2'
    if any(ord(c)>126 or ord(c)<32 or c=='\\' for c in body): return 'K3'
    if '/*' in body or '*/' in body: return 'K4'
    return None
def gen_body():
    n=R.randint(0,5); parts=[]
    for _ in range(n):
        r=R.random()
        if r<.4: parts.append(R.choice(WORDS))
        elif r<.8: parts.append(''.join(R.choice(PUNCT) for _ in range(R.randint(1,3))))
        else: parts.append(''.join(R.choice(string.ascii_letters+string.digits) for _ in range(R.randint(1,6))))
    return ''.join(parts)
POS={
 'default': ("create table t (a int, b varchar(10) default {L} not null, c int);", lambda r: r[0]['columns'][1]['default'], {}),
 'default_last': ("create table t (a int, b varchar(10) default {L});", lambda r: r[0]['columns'][1]['default'], {}),
 'col_comment': ("create table t (a int, b varchar(10) comment {L}, c int);", lambda r: r[0]['columns'][1]['comment'], {}),
 'tbl_comment': ("create table t (a int, b int) comment {L};", lambda r: r[0]['comment'], {'output_mode':'hql'}),
 'type_enum': ("create type e as enum ({L}, 'z');", lambda r: r[0]['properties']['values'][0], {}),
 'col_enum': ("create table t (a int, b enum('q', {L}), c int);", lambda r: r[0]['columns'][1]['values'][1], {}),
 'location': ("create table t (a int) location {L};", lambda r: r[0]['location'], {'output_mode':'hql'}),
 'fields_term': ("create table t (a int) row format delimited fields terminated by {L};", lambda r: r[0]['fields_terminated_by'], {'output_mode':'hql'}),
 'tblprop': ("create table t (a int) tblproperties ('k'={L});", lambda r: r[0]['tblproperties']["'k'"], {'output_mode':'hql'}),
 'tblprop_key': ("create table t (a int) tblproperties ({L}='v');", lambda r: list(r[0]['tblproperties'])[0], {'output_mode':'hql'}),
 'options': ("create table t (a int) options (description={L});", lambda r: r[0]['options'][0]['description'], {'output_mode':'bigquery'}),
 'schema_comment': ("create schema s comment {L};", lambda r: r[0]['comment'], {}),
 'check': ("create table t (a int, b varchar(10) check (b <> {L}), c int);", lambda r: r[0]['columns'][1]['check'], {}),
 'datafile': ("create tablespace ts DATAFILE {L} SIZE 10M;", lambda r: r[0]['properties']['DATAFILE'], {}),
 'alter_default': ("create table t (a int, b varchar(9));\nalter table t add default {L} for b;", lambda r: r[0]['columns'][1]['default'], {}),
}
cnt=collections.Counter(); ex=collections.defaultdict(list); excl=collections.Counter()
for i in range(30000):
    body=gen_body(); c=carve(body)
    if c: excl[c]+=1; continue
    if body.count("'")%2: continue
    lit="'"+body+"'"
    pn=R.choice(list(POS)); tpl,get,kw=POS[pn]
    ddl=tpl.format(L=lit)
    try: g=get(P(ddl,**kw))
    except Exception as e: g='EXC '+type(e).__name__+' '+str(e)[:40]
    ok = (lit in g) if pn=='check' and isinstance(g,str) else g==lit
    cnt[pn,ok]+=1
    if not ok: ex[pn].append((lit,g))
print(excl, sum(excl.values()))
for k in sorted(cnt): print(k,cnt[k])
for k,v in ex.items():
    v=sorted(v,key=lambda x:len(x[0])); print(k, v[:6])
