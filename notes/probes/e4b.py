from probe import *
import random, collections, copy, json
R=random.Random(404)
def spell(name, style):
    if style=='plain': return name
    if style=='upper': return name.upper()
    if style=='lower': return name.lower()
    if style=='dq': return f'"{name}"'
    if style=='br': return f'[{name}]'
    if style=='bt': return f'`{name}`'
STY=['plain','upper','lower','dq','br','bt']
def norm(n): return n.strip('"[]`').lower()
cnt=collections.Counter(); ex={}
for it in range(6000):
    # tables
    keys=R.sample([(None,'t'),('a','t'),('b','t'),('a','u'),(None,'u'),('S1','Orders')],R.randint(1,4))
    tables={}
    ddl=[]
    for sch,tn in keys:
        cols=[('id','int',None),('name','varchar',10),('Code','int',None),('amt','decimal',(10,2))][:R.randint(2,4)]
        tables[(sch,tn)]={'cols':[{'name':c,'type':t,'size':s,'default':None,'unique':False} for c,t,s in cols],'alter':collections.defaultdict(list),'index':[]}
        ddl.append(f"CREATE TABLE {sch+'.' if sch else ''}{tn} ("+", ".join(f"{c} {t}"+(f"({s})" if isinstance(s,int) else f"({s[0]},{s[1]})" if s else '') for c,t,s in cols)+");")
    base={k:P(d)[0] for k,d in zip(keys,ddl)}
    ops=[]; touched=set()
    for j in range(R.randint(1,6)):
        k=R.choice(keys); sch,tn=k; m=tables[k]
        ref=(spell(sch,R.choice(STY))+'.' if sch else '')+spell(tn,R.choice(STY))
        kind=R.choice(['add','drop','rename','modify','pk','uq','check','default','fk','index'])
        names=[c['name'] for c in m['cols']]
        if kind=='add':
            nn=f"x{j}"; d=R.choice([None,"0","'q'"]); m['cols'].append({'name':nn,'type':'int','size':None,'default':(int(d) if d and d.isdigit() else d),'unique':False})
            s=f"ALTER TABLE {ref} ADD {nn} int"+(f" DEFAULT {d}" if d else "")+";"
        elif kind=='drop':
            if len(names)<2: continue
            c=R.choice(names); cs=spell(c,R.choice(['plain','upper','lower','dq','br'])); m['cols']=[x for x in m['cols'] if x['name']!=c]
            s=f"ALTER TABLE {ref} DROP COLUMN {cs};"
        elif kind=='rename':
            c=R.choice(names); nn=f"r{j}"; cs=spell(c,R.choice(['plain','upper','lower']))
            for x in m['cols']:
                if x['name']==c: x['name']=nn
            s=f"ALTER TABLE {ref} RENAME COLUMN {cs} TO {nn};"
        elif kind=='modify':
            c=R.choice(names); form=R.choice(['MODIFY COLUMN','MODIFY','ALTER COLUMN'])
            for i,x in enumerate(m['cols']):
                if x['name']==c: m['cols'][i]={'name':c,'type':'varchar','size':77,'default':None,'unique':False}
            s=f"ALTER TABLE {ref} {form} {c} varchar(77);"
        elif kind=='pk':
            cs=R.sample(names,R.randint(1,min(2,len(names)))); nm=R.choice([None,f"pk{j}"]); m['alter']['primary_keys'].append({'constraint_name':nm,'columns':cs})
            s=f"ALTER TABLE {ref} ADD "+(f"CONSTRAINT {nm} " if nm else "")+f"PRIMARY KEY ({', '.join(cs)});"
        elif kind=='uq':
            cs=R.sample(names,R.randint(1,min(3,len(names)))); nm=R.choice([None,f"uq{j}"]); m['alter']['uniques'].append({'constraint_name':nm,'columns':cs})
            if len(cs)==1:
                for x in m['cols']:
                    if x['name']==cs[0]: x['unique']=True
            s=f"ALTER TABLE {ref} ADD "+(f"CONSTRAINT {nm} " if nm else "")+f"UNIQUE ({', '.join(cs)});"
        elif kind=='check':
            c=R.choice(names); nm=R.choice([None,f"ck{j}"]); m['alter']['checks'].append({'constraint_name':nm,'statement':f"{c} > {j}"})
            s=f"ALTER TABLE {ref} ADD "+(f"CONSTRAINT {nm} " if nm else "")+f"CHECK ({c} > {j});"
        elif kind=='default':
            cs=R.sample(names,R.randint(1,min(2,len(names)))); nm=R.choice([None,f"df{j}"]); v=(R.choice(["0","'z'","7"]) if nm else "'z'")
            for x in m['cols']:
                if x['name'] in cs: x['default']=v
            m['alter']['defaults'].append({'constraint_name':nm,'value':v,'cols':cs})
            s=f"ALTER TABLE {ref} ADD "+(f"CONSTRAINT {nm} " if nm else "")+f"DEFAULT {v} FOR {', '.join(cs)};"
        elif kind=='fk':
            cs=R.sample(names,R.randint(1,min(2,len(names)))); nm=R.choice([None,f"fk{j}"]); rc=[f"o{i}" for i in range(len(cs))]
            for c_,r_ in zip(cs,rc): m['alter']['columns'].append({'name':c_,'constraint_name':nm,'ref':('rs','rt',r_)})
            s=f"ALTER TABLE {ref} ADD "+(f"CONSTRAINT {nm} " if nm else "")+f"FOREIGN KEY ({', '.join(cs)}) REFERENCES rs.rt ({', '.join(rc)});"
        else:
            cs=R.sample(names,R.randint(1,min(3,len(names)))); uq=R.random()<.4; det=[(c,R.choice([None,'ASC','DESC'])) for c in cs]
            m['index'].append({'index_name':f"ix{j}",'unique':uq,'columns':cs,'detailed':[(c,o or 'ASC') for c,o in det]})
            s=f"CREATE {'UNIQUE ' if uq else ''}INDEX ix{j} ON {ref} ("+", ".join(c+(f" {o}" if o else '') for c,o in det)+");"
        ops.append(s); touched.add(k)
    script="\n".join(ddl+ops)+"\n"
    try: r=P(script)
    except Exception as e: cnt['EXC',type(e).__name__]+=1; ex.setdefault(('EXC',type(e).__name__),(script,str(e))); continue
    if len(r)!=len(keys): cnt['ntables']+=1; ex.setdefault('ntables',script); continue
    for k,e in zip(keys,r):
        m=tables[k]
        if k not in touched:
            if e!=base[k]: cnt['untouched changed']+=1; ex.setdefault('untouched changed',(script,k))
            continue
        if any('type' not in c for c in e['columns']):
            cnt['column without type']+=1; ex.setdefault('column without type',(script,k,[c for c in e['columns'] if 'type' not in c])); continue
        got=[(c['name'],c['type'],c['size'],c['default'],c['unique']) for c in e['columns']]
        exp=[(c['name'],c['type'],c['size'],c['default'],c['unique']) for c in m['cols']]
        if got!=exp: cnt['cols']+=1; ex.setdefault('cols',(script,k,got,exp)); continue
        a=e['alter']
        for key in ('primary_keys','uniques','checks'):
            if a.get(key,[])!=m['alter'].get(key,[]): cnt['alter',key]+=1; ex.setdefault(('alter',key),(script,k,a.get(key),m['alter'].get(key)))
        gd=[(d['constraint_name'],d['value'],[c for c in d['columns'] if c!=',']) for d in a.get('defaults',[])]
        ed=[(d['constraint_name'],d['value'],d['cols']) for d in m['alter'].get('defaults',[])]
        if gd!=ed: cnt['alter','defaults']+=1; ex.setdefault(('alter','defaults'),(script,k,gd,ed))
        gf=[(c['name'],c['constraint_name'],(c['references']['schema'],c['references']['table'],c['references']['column'])) for c in a.get('columns',[]) if c.get('references')]
        ef=[(c['name'],c['constraint_name'],c['ref']) for c in m['alter'].get('columns',[])]
        if gf!=ef: cnt['alter','fk']+=1; ex.setdefault(('alter','fk'),(script,k,gf,ef))
        gi=[(i['index_name'],i['unique'],i['columns'],[(d['name'],d['order']) for d in i['detailed_columns']]) for i in e['index']]
        ei=[(i['index_name'],i['unique'],i['columns'],i['detailed']) for i in m['index']]
        if gi!=ei: cnt['index']+=1; ex.setdefault('index',(script,k,gi,ei))
    cnt['ok']+=1
print(cnt)
for k,v in ex.items(): print(k); [print('   ',x) for x in v]
