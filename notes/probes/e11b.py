from probe import *
import random, collections, json
R=random.Random(11)
BODIES=["CREATE TABLE s.t (id int NOT NULL, name varchar(10) DEFAULT 'x', PRIMARY KEY (id))","CREATE TABLE t (a int)","CREATE TABLE t (a int, b decimal(10,2) NOT NULL)","CREATE TABLE t (a int, b text COMMENT 'c')","CREATE TABLE t (a int, b int DEFAULT 0)","CREATE TABLE t (a int REFERENCES o (id))", "CREATE TABLE t (a int, CONSTRAINT pk PRIMARY KEY (a))","CREATE TABLE t (a int, b varchar(5) UNIQUE)"]
CAT={
 'hql':[("STORED AS PARQUET",{'stored_as':'PARQUET'}),("LOCATION 's3://b/p'",{'location':"'s3://b/p'"}),("ROW FORMAT DELIMITED",{'row_format':'DELIMITED'}),("FIELDS TERMINATED BY '|'",{'fields_terminated_by':"'|'"}),("TBLPROPERTIES ('a'='1', 'b'='2')",{'tblproperties':{"'a'":"'1'","'b'":"'2'"}}),("PARTITIONED BY (dt string, hr int)",{'partitioned_by':[{'name':'dt','type':'string','size':None},{'name':'hr','type':'int','size':None}]}),("CLUSTERED BY (a) INTO 4 BUCKETS",{'clustered_by':['a'],'into_buckets':'4'}),("COMMENT 'tc'",{'comment':"'tc'"}),("COLLECTION ITEMS TERMINATED BY '2'",{'collection_items_terminated_by':"'2'"}),("MAP KEYS TERMINATED BY '3'",{'map_keys_terminated_by':"'3'"}),("LINES TERMINATED BY 'n'",{'lines_terminated_by':"'n'"})],
 'mysql':[("ENGINE=InnoDB",{'engine':'InnoDB'}),("DEFAULT CHARSET=utf8",{'default_charset':'utf8'}),("AUTO_INCREMENT=5",{'auto_increment':'5'}),("COMMENT='tc'",{'comment':"'tc'"})],
 'oracle':[("TABLESPACE users",{'tablespace':{'tablespace_name':'users','properties':None,'type':None,'temporary':False}}),("STORAGE (INITIAL 5m NEXT 5m)",{'storage':{'initial':'5m','next':'5m'}}),("ORGANIZATION INDEX",{'organization_index':True})],
 'redshift':[("DISTSTYLE KEY",{'diststyle':'KEY'}),("DISTKEY (a)",{'distkey':'a'}),("COMPOUND SORTKEY (a)",{'sortkey':{'type':'COMPOUND','keys':['a']}})],
 'snowflake':[("CLUSTER BY (a)",{'cluster_by':['a']}),("COMMENT = 'c'",{'comment':"'c'"}),("DATA_RETENTION_TIME_IN_DAYS = 3",{'data_retention_time_in_days':3}),("CHANGE_TRACKING = TRUE",{'change_tracking':True}),("WITH TAG (x.y.z = 'v')",{'with_tag':"x.y.z='v'"}),("MAX_DATA_EXTENSION_TIME_IN_DAYS = 5",{'max_data_extension_time_in_days':'5'})],
 'mssql':[("ON [PRIMARY]",{'on':'[PRIMARY]'}),("TEXTIMAGE_ON [PRIMARY]",{'textimage_on':'[PRIMARY]'}),("WITH (DATA_COMPRESSION = PAGE)",{'with':{'properties':[{'name':'DATA_COMPRESSION','value':'PAGE'}],'on':None}})],
 'bigquery':[("OPTIONS (description = 'd')",{'options':[{'description':"'d'"}]}),("PARTITION BY DATE(a)",{'partition_by':{'columns':['a'],'type':'DATE'}}),("CLUSTER BY a",{'cluster_by':['a']})],
 'postgres':[("INHERITS (s.parent)",{'inherits':{'schema':'s','table_name':'parent'}}),("PARTITION BY RANGE (a)",{'partition_by':{'columns':['a'],'type':'RANGE'}}),("TABLESPACE ts",{'tablespace':{'tablespace_name':'ts','properties':None,'type':None,'temporary':False}})],
 'spark_sql':[("USING PARQUET",{'using':'PARQUET'}),("PARTITIONED BY (a)",{'partitioned_by':['a']}),("LOCATION 's3://b/p'",{'location':"'s3://b/p'"}),("COMMENT 'tc'",{'comment':"'tc'"}),("TBLPROPERTIES ('a'='1')",{'tblproperties':{"'a'":"'1'"}})],
 'ibm_db2':[("IN ts1",{'tablespace':'ts1'}),("INDEX IN ts2",{'index_in':'ts2'}),("ORGANIZE BY ROW",{'organize_by':'ROW'})],
}
def body_of(e,mode):
    sk='dataset' if mode=='bigquery' else 'schema'
    return {'table_name':e['table_name'],'schema':e.get(sk),'pk':e['primary_key'],'cols':[{k:c[k] for k in ('name','type','size','nullable','default','unique','references','check')} for c in e['columns']],'checks':e['checks'],'index':e['index'],'constraints':e.get('constraints')}
cnt=collections.Counter(); ex={}
for i in range(6000):
    mode=R.choice(list(CAT)); body=R.choice(BODIES)
    k=R.randint(1,min(4,len(CAT[mode]))); cls=R.sample(CAT[mode],k)
    ddl=body+"\n"+"\n".join(c for c,_ in cls)+";"
    for m in (mode,'sql'):
        b0=P(body+";",output_mode=m)[0]
        try: r=P(ddl,output_mode=m)
        except Exception as e: kk=('EXC',mode,tuple(c for c,_ in cls)); cnt['EXC',mode,type(e).__name__]+=1; ex.setdefault(('EXC',mode),(ddl,str(e))); continue
        if len(r)!=1 or 'table_name' not in r[0]: cnt['notable',mode]+=1; ex.setdefault(('notable',mode,tuple(sorted(c.split()[0] for c,_ in cls))),ddl); continue
        e=r[0]
        if body_of(e,m)!=body_of(b0,m): cnt['body',mode]+=1; ex.setdefault(('body',mode,tuple(c.split()[0] for c,_ in cls)),(ddl,)); continue
        for c,exp in cls:
            for key,val in exp.items():
                got = e[key] if key in e else e.get('table_properties',{}).get(key,'<MISSING>')
                if got!=val: cnt['value',mode,key]+=1; ex.setdefault(('value',mode,key,tuple(c.split()[0] for c,_ in cls)),(ddl,got))
print(cnt)
for k,v in list(ex.items())[:40]: print(k, repr(v)[:300])
