import sys, logging, collections
sys.path.insert(0,'/tmp/scratch/pkg')
logging.getLogger().addHandler(logging.NullHandler())
from simple_ddl_parser import DDLParser
fired=collections.Counter()
def instrument(p):
    for prod in p.yacc.productions:
        if prod.callable and not getattr(prod.callable,'_cov',False):
            f=prod.callable; s=prod.str
            def w(pp,f=f,s=s):
                fired[s]+=1; return f(pp)
            w._cov=True; prod.callable=w
p=DDLParser("create table t (a int not null default 1, b varchar(10), primary key (a)) ;\ncreate sequence s start 1;")
instrument(p); print(p.run()[0]['primary_key']); print(len(fired), len(p.yacc.productions)); print(fired.most_common(5))
