from probe import *
import random, collections, re
R=random.Random(55)
STM=[
 "CREATE TABLE s.t1 ( id int NOT NULL , name varchar ( 10 ) DEFAULT 'x' , PRIMARY KEY ( id ) ) ;",
 "CREATE TABLE t1 ( a int , b decimal ( 10 , 2 ) , CONSTRAINT ck1 CHECK ( a > 0 ) ) ;",
 "CREATE TABLE IF NOT EXISTS t1 ( a int , b text ) PARTITIONED BY ( dt string ) STORED AS PARQUET LOCATION 's3://b/p' ;",
 "CREATE EXTERNAL TABLE t1 ( a int COMMENT 'c1' , m MAP < STRING , INT > ) ROW FORMAT DELIMITED FIELDS TERMINATED BY '|' TBLPROPERTIES ( 'a' = '1' , 'b' = '2' ) ;",
 "CREATE TABLE t1 ( a int ) ENGINE = InnoDB DEFAULT CHARSET = utf8 ;",
 "CREATE TABLE t1 ( a int , b int REFERENCES o ( id ) ON DELETE CASCADE , UNIQUE ( a , b ) , FOREIGN KEY ( a ) REFERENCES s.p ( x ) ) ;",
 "CREATE TABLE t1 ( a int ) TABLESPACE users STORAGE ( INITIAL 5m NEXT 5m ) ;",
 "CREATE TABLE t1 ( a int ) DISTSTYLE KEY DISTKEY ( a ) COMPOUND SORTKEY ( a ) ;",
 "CREATE TABLE t1 ( a int ) CLUSTER BY ( a ) COMMENT = 'c' DATA_RETENTION_TIME_IN_DAYS = 3 ;",
 "CREATE TABLE t1 ( a int ) ON [PRIMARY] TEXTIMAGE_ON [PRIMARY] ;",
 "CREATE TABLE t1 ( a int ) OPTIONS ( description = 'd' ) ;",
 "CREATE TABLE t1 ( a int ) INHERITS ( s.parent ) ;",
 "CREATE TABLE t1 ( a int ) PARTITION BY RANGE ( a ) ;",
 "CREATE TABLE t1 LIKE other ;",
 "CREATE SEQUENCE s.seq1 START WITH 1 INCREMENT BY 2 NO MAXVALUE MINVALUE -5 CACHE 10 NOORDER ;",
 "CREATE TYPE s.ty1 AS ENUM ( 'a' , 'b' ) ;",
 "CREATE OR REPLACE TYPE ty1 AS OBJECT ( x int , y varchar ( 5 ) ) ;",
 "CREATE TYPE dbo.tt AS TABLE ( id int NOT NULL , nm varchar ( 10 ) NULL ) ;",
 "CREATE DOMAIN s.d1 AS varchar ( 10 ) ;",
 "CREATE SCHEMA IF NOT EXISTS sch1 ;",
 "CREATE SCHEMA sch1 AUTHORIZATION bob ;",
 "CREATE SCHEMA sch1 COMMENT = 'hello' ;",
 "CREATE DATABASE db1 ;",
 "CREATE TABLESPACE ts1 DATAFILE 'f.dbf' SIZE 10M ;",
 "CREATE BIGFILE TEMPORARY TABLESPACE ts1 ;",
 "CREATE TABLE zz ( a int , b int ) ;\nALTER TABLE zz ADD CONSTRAINT fk1 FOREIGN KEY ( a ) REFERENCES o ( id ) ON DELETE CASCADE ;",
 "CREATE TABLE zz ( a int , b int ) ;\nCREATE UNIQUE INDEX ix1 ON zz ( a DESC , b ) ;",
 "CREATE TABLE zz ( a int , b int ) ;\nALTER TABLE zz ADD CONSTRAINT u1 UNIQUE ( a , b ) ;",
 "CREATE TABLE zz ( a int , b int ) ;\nALTER TABLE zz ADD extra int DEFAULT 0 ;",
 "CREATE TABLE zz ( a int , b int ) ;\nALTER TABLE zz ADD CONSTRAINT df DEFAULT 'q' FOR b ;",
 "CREATE TABLE zz ( a int , b int ) ;\nALTER TABLE zz ADD CONSTRAINT ck CHECK ( a > 0 AND b < 5 ) ;",
 "CREATE TABLE zz ( a int , b int ) ;\nALTER TABLE zz RENAME COLUMN a TO c ;",
 "CREATE TABLE zz ( a int , b int ) ;\nALTER TABLE zz MODIFY COLUMN a varchar ( 7 ) ;",
 "CREATE TABLE zz ( a int , b int ) ;\nALTER TABLE ONLY zz ADD PRIMARY KEY ( a ) ;",
]
VAL=set("CASCADE DELIMITED ENUM OBJECT".split())
KW=set("CREATE TABLE NOT NULL DEFAULT PRIMARY KEY CONSTRAINT CHECK IF EXISTS PARTITIONED BY STORED AS LOCATION EXTERNAL COMMENT ROW FORMAT DELIMITED FIELDS TERMINATED TBLPROPERTIES ENGINE REFERENCES ON DELETE CASCADE UNIQUE FOREIGN TABLESPACE STORAGE CLUSTER OPTIONS INHERITS PARTITION LIKE SEQUENCE START WITH INCREMENT NO MAXVALUE MINVALUE CACHE NOORDER TYPE ENUM OR REPLACE OBJECT DOMAIN SCHEMA AUTHORIZATION DATABASE ALTER ADD INDEX COLUMN RENAME MODIFY FOR TEXTIMAGE_ON DATA_RETENTION_TIME_IN_DAYS".split())
LINE_START_BAD=('CREATE','ALTER','DROP','SET','GO','USE','INSERT','GRANT','DELETE')
def rerender(st, mode):
    out=[]
    for stmt in st.split("\n"):
        toks=stmt.split(' ')
        s=''
        for i,t in enumerate(toks):
            tt=t
            if t.upper() in KW and t.upper() not in VAL and mode['case']:
                c=R.choice('ulmc'); tt = t.lower() if c=='l' else t.upper() if c=='u' else ''.join(R.choice([ch.lower(),ch.upper()]) for ch in t) if c=='m' else t.capitalize()
            if i==0: s+=tt; continue
            prev=toks[i-1]
            if t==';': sep=R.choice(['',' ','\n']) 
            else:
                ch=[' ','  ','\t',' \t ']
                if mode['nl'] and t.upper() not in LINE_START_BAD: ch+=['\n','\n  ',' \n\n ','\n\t']
                if mode['glue'] and (t in ',()' or prev in ',()'): ch+=['','']
                sep=R.choice(ch)
                if t.startswith("'") and (sep=='' or sep[-1] in '\n\t'): sep+=' '
            s+=sep+tt
        out.append(s)
    return "\n".join(out)+"\n"
cnt=collections.Counter(); ex={}
for it in range(12000):
    st=R.choice(STM)
    canon=st+"\n"
    base=P(canon)
    assert base, canon
    mode=R.choice([{'case':True,'nl':False,'glue':False},{'case':False,'nl':True,'glue':False},{'case':False,'nl':False,'glue':True},{'case':True,'nl':True,'glue':True}])
    v=rerender(st,mode)
    try: r=P(v)
    except Exception as e: r='EXC '+type(e).__name__+str(e)[:50]
    if r!=base:
        k=(STM.index(st),tuple(sorted(k_ for k_,x in mode.items() if x))); cnt[k]+=1
        if k not in ex or len(v)<len(ex[k]): ex[k]=v
    else: cnt['ok']+=1
print(cnt.most_common(60))
seen=set()
for k,v in sorted(ex.items(),key=lambda kv: str(kv[0])):
    if k[0] in seen: continue
    seen.add(k[0]); print(k); print(repr(v)); print('   ', str(P(v))[:300]); print('   ',str(P(STM[k[0]]+"\n"))[:300])
