import sys, json, logging
sys.path.insert(0, '/tmp/scratch/fix')
from simple_ddl_parser import DDLParser, DDLParserError, SimpleDDLParserException, parse_from_file
def P(ddl, **kw):
    ck = {k: kw.pop(k) for k in list(kw) if k in ('silent','normalize_names','debug')}
    return DDLParser(ddl, **ck).run(**kw)
def show(ddl, **kw):
    try:
        r = P(ddl, **kw)
    except Exception as e:
        r = f"EXC {type(e).__name__}: {e}"
    print(ddl.strip()[:300]); print('  =>', r); print()
    return r
