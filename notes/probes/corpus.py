import ast, glob, re, sys
def corpus(root='/repo/tests'):
    out=[]
    for f in sorted(glob.glob(root+'/**/*.py', recursive=True)):
        tree=ast.parse(open(f).read())
        for fn in ast.walk(tree):
            if isinstance(fn,(ast.FunctionDef,)):
                env={}
                for node in ast.walk(fn):
                    if isinstance(node,ast.Assign) and len(node.targets)==1 and isinstance(node.targets[0],ast.Name) and isinstance(node.value,ast.Constant) and isinstance(node.value.value,str):
                        env[node.targets[0].id]=node.value.value
                for node in ast.walk(fn):
                    if isinstance(node,ast.Call) and getattr(node.func,'id',None)=='DDLParser' and node.args:
                        a=node.args[0]
                        s=None
                        if isinstance(a,ast.Constant) and isinstance(a.value,str): s=a.value
                        elif isinstance(a,ast.Name) and a.id in env: s=env[a.id]
                        if s is not None:
                            kw={k.arg: ast.literal_eval(k.value) for k in node.keywords if k.arg and isinstance(k.value,ast.Constant)}
                            out.append((f.split('/tests/')[1]+'::'+fn.name, s, kw))
    return out
if __name__=='__main__':
    c=corpus(); print(len(c)); print(len(set(s for _,s,_ in c)))
    import collections
    print(collections.Counter(f.split('::')[0] for f,_,_ in c))
