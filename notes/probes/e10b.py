from probe import *
import random, collections
R=random.Random(1010)
MODES=['redshift','spark_sql','mysql','bigquery','mssql','databricks','sqlite','vertics','ibm_db2','postgres','oracle','hql','snowflake','athena']
S=[
 "CREATE TABLE s.t{i} (id int NOT NULL, name varchar(10) DEFAULT 'x', PRIMARY KEY (id));",
 "CREATE TABLE t{i} (a int, b decimal(10,2), CONSTRAINT ck{i} CHECK (a > 0));",
 "CREATE EXTERNAL TABLE IF NOT EXISTS t{i} (\n  a int,\n  b text\n)\nPARTITIONED BY (dt string)\nSTORED AS PARQUET\nLOCATION 's3://x/y';",
 "CREATE TABLE t{i} (a ARRAY<STRING>, m MAP<STRING, INT>) ROW FORMAT DELIMITED FIELDS TERMINATED BY '|' TBLPROPERTIES ('a'='1');",
 "CREATE TABLE t{i} (a int) ENGINE=InnoDB DEFAULT CHARSET=utf8 AUTO_INCREMENT=5;",
 "CREATE TEMPORARY TABLE t{i} (a int encode zstd, b int) DISTSTYLE KEY DISTKEY (a) COMPOUND SORTKEY (a, b);",
 "CREATE TABLE t{i} (a int) TABLESPACE users STORAGE (INITIAL 5m NEXT 5m);",
 "CREATE TABLE t{i} (a int ENCRYPT, b int) ORGANIZATION INDEX;",
 "CREATE OR REPLACE TRANSIENT TABLE t{i} (a int) CLUSTER BY (a) COMMENT = 'c' DATA_RETENTION_TIME_IN_DAYS = 3 WITH TAG (x.y.z = 'v');",
 "CREATE TABLE t{i} (a int, CONSTRAINT pk{i} PRIMARY KEY CLUSTERED (a ASC)) ON [PRIMARY] TEXTIMAGE_ON [PRIMARY];",
 "CREATE TABLE p.d.t{i} (a int OPTIONS (description = 'x')) OPTIONS (description = 'd') PARTITION BY DATE(a) CLUSTER BY a;",
 "CREATE TABLE t{i} (a int) INHERITS (s.parent);",
 "CREATE TABLE t{i} (a int) USING PARQUET;",
 "CREATE TABLE t{i} (a int) IN ts1 INDEX IN ts2 ORGANIZE BY ROW;",
 "CREATE TABLE t{i} LIKE other;",
 "DROP TABLE s.gone{i};",
 "CREATE SEQUENCE s.seq{i} START WITH 1 INCREMENT BY 2 NO MAXVALUE CACHE;",
 "CREATE TYPE s.ty{i} AS ENUM ('a', 'b');",
 "CREATE DOMAIN s.d{i} AS varchar(10);",
 "CREATE SCHEMA IF NOT EXISTS sch{i};",
 "CREATE DATABASE db{i};",
 "CREATE TABLESPACE ts{i} DATAFILE 'f.dbf' SIZE 10M;",
 "SET search_path = public;",
 "-- a comment {i}\nselect * from t where a = 1; -- trailing {i}",
 "CREATE TABLE s.zz{i} (a int, b int, c varchar(5));\nALTER TABLE s.zz{i} ADD CONSTRAINT fk{i} FOREIGN KEY (a, b) REFERENCES rs.o (x, y) ON DELETE CASCADE;\nCREATE UNIQUE INDEX ix{i} ON s.zz{i} (a DESC, b);\nALTER TABLE s.zz{i} DROP COLUMN c;\nALTER TABLE s.zz{i} MODIFY COLUMN b varchar(9);\nALTER TABLE s.zz{i} ADD CONSTRAINT u{i} UNIQUE (a);",
]
def proj(d, m, path=''):
    """every key/value of default d must be in mode value m (bigquery dataset≡schema)"""
    if isinstance(d,dict):
        if not isinstance(m,dict): return [(path,'type')]
        out=[]
        for k,v in d.items():
            mk=k
            if k not in m and k=='schema' and 'dataset' in m: mk='dataset'
            if mk not in m: out.append((path+'/'+k,'missing')); continue
            out+=proj(v,m[mk],path+'/'+k)
        return out
    if isinstance(d,list):
        if not isinstance(m,list) or len(d)!=len(m): return [(path,'len')]
        out=[]
        for i,(x,y) in enumerate(zip(d,m)): out+=proj(x,y,path+f'[{i}]')
        return out
    return [] if d==m else [(path,f'{d!r}!={m!r}')]
COMMON=['table_name','schema','primary_key','columns','alter','checks','index','partitioned_by','tablespace','constraints','partition_by']
cnt=collections.Counter(); ex={}
def fail(k,*v): cnt[k]+=1; ex.setdefault(k,v)
kinds={'table_name':'tables','sequence_name':'sequences','type_name':'types','domain_name':'domains','schema_name':'schemas','tablespace_name':'tablespaces','database_name':'databases','value':'ddl_properties'}
for it in range(1500):
    script="\n".join(R.choice(S).format(i=i) for i in range(R.randint(1,6)))+"\n"
    base=P(script)
    for m in MODES:
        try: r=P(script,output_mode=m); g=P(script,output_mode=m,group_by_type=True)
        except Exception as e: fail(('EXC',m,type(e).__name__),script,str(e)); continue
        if len(r)!=len(base): fail(('len',m),script); continue
        for eb,em in zip(base,r):
            if 'table_name' in eb:
                d={k:eb[k] for k in COMMON if k in eb}
                bad=proj(d,em)
                if bad: fail(('common',m,bad[0][0].split('[')[0]),script,bad[:3])
            elif 'comments' in eb:
                if eb!=em: fail(('comments',m),script)
            else:
                bad=proj(eb,em)
                if bad or (set(em)-set(eb)-{'dataset'}): fail(('nontable',m),script,bad[:3],em)
        # group_by_type
        flat=[e for e in r if 'comments' not in e]
        for b in ['tables','types','sequences','domains','schemas','ddl_properties']:
            if b not in g: fail(('bucket missing',b),script)
        def kind(e):
            for k,b in kinds.items():
                if k in e: return b
        for b in set(kinds.values()):
            want=[e for e in flat if kind(e)==b]
            if g.get(b,[])!=want: fail(('bucket',b,m),script,g.get(b),want)
        com=[c for e in r if 'comments' in e for c in e['comments']]
        if g.get('comments',[])!=com: fail(('gcomments',m),script,g.get('comments'),com)
    cnt['ok']+=1
print(cnt)
for k,v in ex.items(): print(k); [print('    ',str(x)[:600]) for x in v]
