from probe import *
import random, collections, itertools
R=random.Random(17)
def val():
    return R.choice([0,1,-1,5,10,-10,2**31,-(2**31),2**63-1,-(2**63),2**63,12345678901234567890, R.randint(-10**6,10**6)])
OPTS={
 'increment': lambda v:(f"INCREMENT {v}",{'increment':v}),
 'increment_by': lambda v:(f"INCREMENT BY {v}",{'increment_by':v}),
 'start': lambda v:(f"START {v}",{'start':v}),
 'start_with': lambda v:(f"START WITH {v}",{'start_with':v}),
 'minvalue': lambda v:(f"MINVALUE {v}",{'minvalue':v}),
 'maxvalue': lambda v:(f"MAXVALUE {v}",{'maxvalue':v}),
 'no_minvalue': lambda v:("NO MINVALUE",{'minvalue':False}),
 'no_maxvalue': lambda v:("NO MAXVALUE",{'maxvalue':False}),
 'cache_n': lambda v:(f"CACHE {abs(v)}",{'cache':abs(v)}),
 'cache': lambda v:("CACHE",{'cache':True}),
 'order': lambda v:("ORDER",{'order':True}),
 'noorder': lambda v:("NOORDER",{'noorder':True}),
}
groups=[['increment','increment_by'],['start','start_with'],['minvalue','no_minvalue'],['maxvalue','no_maxvalue'],['cache_n','cache'],['order','noorder']]
cnt=collections.Counter(); ex={}
for i in range(5000):
    chosen=[R.choice(g) for g in groups if R.random()<.6]
    R.shuffle(chosen)
    parts=[];exp={}
    for o in chosen:
        t,e=OPTS[o](val()); parts.append(t); exp.update(e)
    sch=R.choice([None,'s','Dev']); name=R.choice(['seq1','My_Seq','ids'])
    exp.update({'schema':sch,'sequence_name':name})
    ddl=f"CREATE SEQUENCE {sch+'.' if sch else ''}{name} "+' '.join(parts)+";"
    if R.random()<.5: ddl=ddl.lower().replace(name.lower(),name).replace((sch or 'zzzz').lower()+'.',(sch or 'zzzz')+'.')
    full="create table t0 (a int);\n"+ddl+"\ncreate table t1 (increment int, start int, cache int, minvalue int, no int);\n"
    try: r=P(full)
    except Exception as e: cnt['EXC',type(e).__name__,str(e)[:50]]+=1; ex.setdefault(('EXC',type(e).__name__,str(e)[:50]),ddl); continue
    if len(r)!=3: cnt['len']+=1; ex.setdefault('len',(ddl,r)); continue
    if r[1]!=exp:
        k=('seq diff',tuple(sorted(set(exp)^set(r[1]))) ); cnt[k]+=1; ex.setdefault(k,(ddl,r[1],exp))
    if [c['name'] for c in r[2]['columns']]!=['increment','start','cache','minvalue','no']: cnt['next table']+=1; ex.setdefault('next table',(ddl,r[2]))
print(cnt)
for k,v in ex.items(): print(k,v)
