from probe import *
import random, collections, re
R=random.Random(88)
S=[
 "CREATE TABLE s.t{i} (\n  id int NOT NULL,\n  name varchar(10) DEFAULT 'x',\n  PRIMARY KEY (id)\n);",
 "CREATE TABLE t{i} (a int, b decimal(10,2), CONSTRAINT ck{i} CHECK (a > 0));",
 "CREATE TABLE IF NOT EXISTS t{i} (\n  a int,\n  b text\n)\nPARTITIONED BY (dt string)\nSTORED AS PARQUET;",
 "CREATE TABLE t{i} (\n  a int\n) ENGINE=InnoDB DEFAULT CHARSET=utf8;",
 "CREATE SEQUENCE s.seq{i}\n  START WITH 1\n  INCREMENT BY 2\n  NO MAXVALUE;",
 "CREATE TYPE s.ty{i} AS ENUM ('a', 'b');",
 "CREATE SCHEMA IF NOT EXISTS sch{i};",
 "CREATE TABLE zz{i} (a int, b int);\nALTER TABLE zz{i} ADD CONSTRAINT fk{i} FOREIGN KEY (a) REFERENCES o (id);\nCREATE INDEX ix{i} ON zz{i} (a);",
 "select * from t where a = 1;",
 "CREATE VIEW v{i} AS SELECT a, b FROM t;",
]
WORDS=["create","table","select","(",")",",",";","=","int","alter","drop","not null","primary key","x = 1","a,b","(c)"]
def ctext(n):
    ws=[]; 
    for j in range(R.randint(1,5)): ws.append(R.choice(WORDS) if R.random()<.5 else f"zq{n}_{j}")
    if not any(w.startswith('zq') for w in ws): ws.append(f"zq{n}_x")
    return ' '.join(ws)
def nc(r): return [e for e in r if 'comments' not in e]
def com(r):
    c=[e['comments'] for e in r if 'comments' in e]; return c[0] if c else []
cnt=collections.Counter(); ex={}
for it in range(3000):
    stmts=[R.choice(S).format(i=i) for i in range(R.randint(1,4))]
    lines="\n".join(stmts).split("\n")
    base=nc(P("\n".join(lines)+"\n"))
    new=list(lines); inserted=[]
    k=R.randint(1,4)
    for n in range(k):
        style=R.choice(['line--','line--ns','line#','lineblock','ind--','indblock','multi','multi3','trail--','trailblock'])
        t=ctext(n)
        if style.startswith('trail'):
            pos=R.randrange(len(new))
            if new[pos].startswith(('/*',' ','--','#')) and ('zq' in new[pos]): continue
            if '--' in new[pos] or '/*' in new[pos] or '*/' in new[pos]: continue
            new[pos]=new[pos]+(f" -- {t}" if style=='trail--' else f" /* {t} */")
        else:
            pos=R.randint(0,len(new))
            # do not insert inside an existing multi-line comment
            block={'line--':[f"-- {t}"],'line--ns':[f"--{t}"],'line#':[f"# {t}"],'lineblock':[f"/* {t} */"],'ind--':[f"   -- {t}"],'indblock':[f"   /* {t} */"],'multi':[f"/* {t}",f"   {ctext(n)} */"],'multi3':["/*",f" {t}",f" {ctext(n)}","*/"]}[style]
            # avoid splitting an existing multi block: only insert at positions not inside one
            inside=False; depth=0
            for l in new[:pos]:
                if '/*' in l and '*/' not in l: depth=1
                if '*/' in l and '/*' not in l: depth=0
            if depth: continue
            new[pos:pos]=block
        inserted.append((style,t))
    ddl="\n".join(new)+"\n"
    try: r=P(ddl)
    except Exception as e: cnt['EXC',type(e).__name__]+=1; ex.setdefault(('EXC',type(e).__name__),(ddl,str(e))); continue
    if nc(r)!=base:
        cnt['entities differ']+=1
        if 'ent' not in ex or len(ddl)<len(ex['ent']): ex['ent']=ddl
        continue
    if 'zq' in repr(nc(r)): cnt['leak']+=1; ex.setdefault('leak',ddl)
    cnt['ok']+=1
    for item in com(r):
        if 'zq' not in item and item.strip() not in ('','*/') and not all(w in ' '.join(WORDS)+' */' for w in item.split()): cnt['comment item without marker']+=1; ex.setdefault('cim',(ddl,item))
print(cnt)
for k,v in ex.items(): print(k); print(v if isinstance(v,str) else v)
