from probe import *
import random, collections
R=random.Random(33)
S=[
 "CREATE TABLE s.t{i} (id int NOT NULL, name varchar(10) DEFAULT 'x', PRIMARY KEY (id));",
 "CREATE TABLE t{i} (a int, b decimal(10,2), CONSTRAINT ck{i} CHECK (a > 0));",
 "CREATE TABLE IF NOT EXISTS t{i} (\n  a int,\n  b text\n)\nPARTITIONED BY (dt string)\nSTORED AS PARQUET;",
 "CREATE TABLE t{i} (a ARRAY < STRING >, m MAP<STRING, INT>);",
 "CREATE TABLE t{i} (a int) ENGINE=InnoDB DEFAULT CHARSET=utf8;",
 "CREATE TABLE t{i} LIKE other;",
 "CREATE SEQUENCE s.seq{i} START WITH 1 INCREMENT BY 2 NO MAXVALUE CACHE;",
 "CREATE TYPE s.ty{i} AS ENUM ('a', 'b');",
 "CREATE TYPE ty{i} AS OBJECT (x int, y varchar(5));",
 "CREATE DOMAIN s.d{i} AS varchar(10);",
 "CREATE SCHEMA IF NOT EXISTS sch{i};",
 "CREATE SCHEMA sch{i} AUTHORIZATION bob;",
 "CREATE DATABASE db{i};",
 "CREATE TABLESPACE ts{i} DATAFILE 'f.dbf' SIZE 10M;",
 "CREATE BIGFILE TEMPORARY TABLESPACE ts{i};",
 "SET search_path = public;",
 "select * from t where a = 1;",
 "INSERT INTO t VALUES (1, 'x');",
 "GRANT ALL ON t TO bob;",
 "CREATE VIEW v{i} AS SELECT a, b FROM t;",
 "UPDATE t SET a = 1;",
 "COMMENT ON TABLE t IS 'hello';",
 "CREATE FUNCTION f{i}() RETURNS int LANGUAGE sql;",
 "USE db;",
 "DROP INDEX ix;",
 "TRUNCATE TABLE t;",
]
AL=["ALTER TABLE {t} ADD CONSTRAINT fk{i} FOREIGN KEY (a) REFERENCES o (id);","CREATE INDEX ix{i} ON {t} (a);","ALTER TABLE {t} ADD CONSTRAINT u{i} UNIQUE (a);","ALTER TABLE {t} ADD extra{i} int;"]
def nc(r): return [e for e in r if 'comments' not in e]
cnt=collections.Counter(); ex={}
for it in range(3000):
    n=R.randint(2,7); stmts=[]
    for i in range(n):
        s=R.choice(S).format(i=i); stmts.append(s)
    # alters target self-contained: pair (table + alter)
    if R.random()<.5:
        i=n; t=f"zz{i}"; stmts.insert(R.randint(0,len(stmts)), f"CREATE TABLE {t} (a int, b int);\n"+R.choice(AL).format(t=t,i=i))
    script="\n".join(stmts)+"\n"
    try: whole=nc(P(script))
    except Exception as e: cnt['EXC whole',type(e).__name__]+=1; ex.setdefault(('EXC',type(e).__name__),script); continue
    parts=[]
    for s in stmts: parts+=nc(P(s+"\n"))
    if whole!=parts:
        cnt['diff']+=1
        if 'diff' not in ex or len(script)<len(ex['diff']): ex['diff']=script
print(cnt)
for k,v in ex.items(): print(k); print(v)
