from probe import *
import random, collections
R=random.Random(101)
NAMES=['a','b','col1','UserId','x_y','Z9','created_at','v','n1','name_','id','Price','qty','is_ok','t2']
TYPES=[('int',None),('INT',None),('varchar',(10,)),('VARCHAR',(255,)),('decimal',(10,2)),('NUMERIC',(5,0)),('text',None),('Timestamp',None),('bigint',None),('char',(1,)),('float',None),('date',None),('boolean',None),('uuid',None),('jsonb',None),('MyType',None),('money',None),('number',(38,)),('nvarchar',(4000,))]
DEFAULTS=[("'x'","'x'"),("'abc def'","'abc def'"),("0",0),("42",42),("1234567",1234567),("007",7),("12345678901234567890",12345678901234567890),("NULL","NULL"),("null","NULL"),("now()","now()"),("current_timestamp","current_timestamp"),("CURRENT_DATE","CURRENT_DATE"),("'2020-01-01'","'2020-01-01'"),("TRUE","TRUE"),("false","false"),("''","''"),("-1","-1"),("1.5","1.5"),("'it''s'","'it''s'"),("'a;b -- c #d'","'a;b -- c #d'"),("uuid_generate_v4()","uuid_generate_v4()"),("'NOT NULL'","'NOT NULL'")]
def gen_col(name):
    t,size=R.choice(TYPES); opts=[]
    exp={'name':name,'type':t,'size':None if size is None else (size[0] if len(size)==1 else tuple(size)),'nullable':True,'default':None,'unique':False,'pk':False,'ref':None}
    if R.random()<.5:
        if R.random()<.65: opts.append(R.choice(['NOT NULL','not null','Not Null'])); exp['nullable']=False
        else: opts.append(R.choice(['NULL','null']))
    if R.random()<.5:
        d,e=R.choice(DEFAULTS); opts.append(R.choice(['DEFAULT ','default '])+d); exp['default']=e
    if R.random()<.15 and 'NULL' not in [o.upper() for o in opts]:
        opts.append(R.choice(['PRIMARY KEY','primary key'])); exp['pk']=True; exp['nullable']=False
    if R.random()<.2: opts.append(R.choice(['UNIQUE','unique'])); exp['unique']=True
    if R.random()<.3:
        rs=R.choice([None,'rs']); rt=R.choice(['o','Other']); rc=R.choice(['id','k'])
        od=R.choice([None,'CASCADE','RESTRICT']); ou=R.choice([None,'CASCADE','RESTRICT'])
        s=f"REFERENCES {rs+'.' if rs else ''}{rt}{R.choice(['',' '])}({rc})"
        acts=[]
        if od: acts.append(f"ON DELETE {od}")
        if ou: acts.append(f"ON UPDATE {ou}")
        R.shuffle(acts); s+=''.join(' '+a for a in acts)
        opts.append(s); exp['ref']=(rs,rt,rc,od,ou)
    R.shuffle(opts)
    sz='' if size is None else '('+R.choice([',',', ']).join(map(str,size))+')'
    return f"{name} {t}{sz} "+' '.join(opts), exp, opts
cnt=collections.Counter(); ex={}
N=30000
for i in range(N):
    nt=R.randint(1,3); ddls=[]; exps=[]
    for ti in range(nt):
        n=R.choice([1,2,3,4,5,6,8,12,20])
        names=(R.sample(NAMES,min(n,len(NAMES)))+[f"c{j}" for j in range(max(0,n-len(NAMES)))])
        cols=[gen_col(nm) for nm in names]
        if sum(c[1]['pk'] for c in cols)>1:
            continue
        sep=R.choice([",\n  ",", ",",",",\n\t"])
        ddls.append(f"CREATE TABLE {R.choice(['','s.'])}t{ti} ("+R.choice(['','\n  ',' '])+sep.join(c[0].strip() for c in cols)+R.choice(['','\n',' '])+");"); exps.append((names,cols))
    if not ddls: continue
    ddl="\n".join(ddls)+"\n"
    try: r=P(ddl)
    except Exception as e: k=('EXC',type(e).__name__); cnt[k]+=1; ex.setdefault(k,(ddl,str(e))); continue
    if len(r)!=len(ddls): k=('ntables',); cnt[k]+=1; ex.setdefault(k,(ddl,len(r))); continue
    for e_,(names,cols) in zip(r,exps):
        rc=e_['columns']
        if [c['name'] for c in rc]!=names: k=('names',); cnt[k]+=1; ex.setdefault(k,(ddl,[c['name'] for c in rc])); continue
        for (txt,exp,opts),got in zip(cols,rc):
            for f in ('type','size','nullable','default','unique'):
                if got.get(f)!=exp[f] or type(got.get(f))!=type(exp[f]):
                    k=('field',f,tuple(o.split()[0].upper() for o in opts)); cnt[k]+=1; ex.setdefault(k,(txt,got))
            g=got['references']
            if exp['ref']:
                rs,rt,rcn,od,ou=exp['ref']
                if not g or g['table']!=rt or g['schema']!=rs or (g.get('column')!=rcn and g.get('columns')!=[rcn]) or g['on_delete']!=od or g['on_update']!=ou:
                    k=('ref',tuple(o.split()[0].upper() for o in opts)); cnt[k]+=1; ex.setdefault(k,(txt,g))
            elif g is not None: k=('ref invented',); cnt[k]+=1; ex.setdefault(k,(txt,got))
        pk=[e['name'] for _,e,_ in cols if e['pk']]
        if e_['primary_key']!=pk: k=('pk',); cnt[k]+=1; ex.setdefault(k,(ddl,e_['primary_key']))
print(N,sum(cnt.values()))
for k,v in cnt.most_common(30): print(v,k,'\n    ',str(ex[k])[:400])
