import sys, threading, logging
sys.path.insert(0,'/tmp/scratch/pkg')
logging.getLogger().addHandler(logging.NullHandler())
import ply.lex, ply.yacc
from simple_ddl_parser import DDLParser

class Sched:
    def __init__(self): self.tl=threading.local(); self.ctl=threading.Semaphore(0); self.workers={}
    def yield_point(self, label):
        w=getattr(self.tl,'w',None)
        if w is None: return
        w['at']=label; self.ctl.release(); w['go'].acquire()
    def spawn(self, name, fn):
        w={'go':threading.Semaphore(0),'done':False,'at':'start','res':None,'name':name}
        def body():
            self.tl.w=w; w['go'].acquire()
            try: w['res']=('ok',fn())
            except BaseException as e: w['res']=('exc',type(e).__name__,str(e)[:80])
            w['done']=True; self.tl.w=None; self.ctl.release()
        t=threading.Thread(target=body,daemon=True); w['t']=t; self.workers[name]=w; t.start(); return w
    def step(self,name):
        w=self.workers[name]
        if w['done']: return False
        w['go'].release(); self.ctl.acquire(); return True
S=Sched()
_lex, _yacc, _parse = ply.lex.lex, ply.yacc.yacc, ply.yacc.LRParser.parse
def lex_w(*a,**k):
    r=_lex(*a,**k); S.yield_point('after_lex'); return r
def yacc_w(*a,**k):
    r=_yacc(*a,**k); S.yield_point('after_yacc'); return r
def parse_w(self,*a,**k):
    S.yield_point('before_parse'); return _parse(self,*a,**k)
import simple_ddl_parser.parser as pp
pp.lex.lex=lex_w; pp.yacc.yacc=yacc_w; ply.yacc.LRParser.parse=parse_w
A='create table "A" ("x" int);\ncreate table "A2" (y int);\n'
B='create table "B" ("y" int);\ncreate sequence sq start 1;\n'
ref={}
ref['a']=DDLParser(A,normalize_names=True).run(); ref['b']=DDLParser(B).run()
def mk(ddl,**kw): return lambda: DDLParser(ddl,**kw).run()
import itertools
def run_schedule(sched):
    S.workers={}
    S.spawn('a',mk(A,normalize_names=True)); S.spawn('b',mk(B))
    trace=[]
    for who in sched:
        if S.step(who): trace.append((who,S.workers[who]['at'] if not S.workers[who]['done'] else 'done'))
    for who in ('a','b'):
        while S.step(who): pass
    return {n:(w['res'][0], (w['res'][1]==ref[n]) if w['res'][0]=='ok' else w['res'][1:]) for n,w in S.workers.items()}, trace
print(run_schedule('aaaaaaaabbbbbbbb'))
print(run_schedule('abababababab'))
print(run_schedule('aabbaabbaabb'))
print(run_schedule('bbaaaaaaaabbbbb'))
