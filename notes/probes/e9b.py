from probe import *
import random, collections, re
R=random.Random(9)
LEAF=['STRING','INT','int','bigint','string','DOUBLE','DATE','boolean','TIMESTAMP','float','BINARY']
def gen(depth):
    if depth==0 or R.random()<.3: return ('leaf',R.choice(LEAF))
    k=R.choice(['ARRAY','MAP','STRUCT','array','map','struct'])
    if k.upper()=='ARRAY': return ('arr',k,gen(depth-1))
    if k.upper()=='MAP': return ('map',k,gen(0),gen(depth-1))
    n=R.randint(1,3); style=R.choice([':',' '])
    return ('struct',k,style,[(R.choice(['a','b','fld','x1','Name'])+str(i),gen(depth-1)) for i in range(n)])
def render(t, sp):
    # sp: function returning spacing choices
    if t[0]=='leaf': return t[1]
    lt = '<' if not sp('lt') else ' < '
    gt = '>' if not sp('gt') else ' >'
    if t[0]=='arr': return t[1]+lt+render(t[2],sp)+gt
    cm = ',' if not sp('comma') else ', '
    if t[0]=='map': return t[1]+lt+render(t[2],sp)+cm+render(t[3],sp)+gt
    return t[1]+lt+cm.join(f"{n}{t[2]}{render(x,sp)}" for n,x in t[3])+gt
def depth(t): return 0 if t[0]=='leaf' else 1+max(depth(x) for x in (t[2:] if t[0]!='struct' else [y for _,y in t[3]]) if isinstance(x,tuple))
cnt=collections.Counter(); ex={}
for i in range(8000):
    t=gen(R.randint(1,4))
    if t[0]=='leaf': continue
    mode=R.choice(['compact','comma_sp','random'])
    if mode=='compact': sp=lambda k: False
    elif mode=='comma_sp': sp=lambda k: k=='comma'
    else: sp=lambda k: R.random()<.4 if k=='comma' else False
    ty=render(t,sp)
    opts=R.sample(["NOT NULL","DEFAULT 1","COMMENT 'cc'"],R.randint(0,3)); 
    pos=R.choice(['first','mid','last','only'])
    cols={'first':[f"b {ty} "+' '.join(opts),"c int","d varchar(5)"],'mid':["a int",f"b {ty} "+' '.join(opts),"c int"],'last':["a int","c text",f"b {ty} "+' '.join(opts)],'only':[f"b {ty} "+' '.join(opts)]}[pos]
    after=R.choice([""," STORED AS PARQUET"," COMMENT 'tc'"," PARTITIONED BY (dt string)"])
    ddl="CREATE TABLE t ("+", ".join(cols)+")"+after+";"
    plain="CREATE TABLE t ("+", ".join(c if not c.startswith('b ') else "b int "+' '.join(opts) for c in cols)+")"+after+";"
    try:
        r=P(ddl,output_mode='hql'); q=P(plain,output_mode='hql')
    except Exception as e: cnt['EXC',type(e).__name__]+=1; ex.setdefault(('EXC',type(e).__name__),ddl); continue
    if not r or 'columns' not in r[0]: cnt['lost',mode]+=1; 
    else:
        b=[c for c in r[0]['columns'] if c['name']=='b']
        if [c['name'] for c in r[0]['columns']]!=[c['name'] for c in q[0]['columns']]: cnt['names',mode]+=1; ex.setdefault(('names',mode),(ddl,[c['name'] for c in r[0]['columns']])); continue
        g=b[0]['type']
        if re.sub(r'\s','',g)!=re.sub(r'\s','',ty): cnt['type',mode]+=1; ex.setdefault(('type',mode),(ddl,g)); continue
        # rest equal to plain
        def proj(e): 
            e=dict(e); e['columns']=[{k:v for k,v in c.items() if not (c['name']=='b' and k=='type')} for c in e['columns']]; return e
        if proj(r[0])!=proj(q[0]): cnt['rest',mode]+=1; ex.setdefault(('rest',mode),(ddl,)); continue
        cnt['ok',mode]+=1
    if ('lost',mode) in cnt and ('lost',mode) not in ex or (not r or 'columns' not in r[0]) and len(ddl)<len(ex.get(('lost',mode),'x'*999)): ex[('lost',mode)]=ddl
print(cnt)
for k,v in ex.items(): print(k,v)
