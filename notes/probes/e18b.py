from probe import *
import random, collections
R=random.Random(18)
def ident(): return R.choice(['mood','Addr','my_type','T1','x9','"Q T"','[br]','`bt`','s_t'])
def sch(): return R.choice([None,None,'s','Dev','"S 1"','dbo'])
def lit(): return "'"+R.choice(['a','sad','ok ok','X-1','1','it''s'.replace("'","''"),'a;b','--'])+"'"
cnt=collections.Counter(); ex={}
def fail(k,*v): cnt[k]+=1; ex.setdefault(k,v)
for it in range(8000):
    kind=R.choice(['enum','object','table','kv','domain','schema','database','tablespace'])
    s_=sch(); n=ident(); q=(s_+'.' if s_ else '')+n
    cr=R.choice(['CREATE','create','Create'])
    if kind=='enum':
        vals=[lit() for _ in range(R.randint(1,6))]; bt=R.choice(['ENUM','enum'])
        ddl=f"{cr} {R.choice(['','OR REPLACE '])}TYPE {q} AS {bt} ({R.choice([', ',','])}".replace('(, ','(').replace('(,','(')
        ddl=f"{cr} {R.choice(['','OR REPLACE '])}TYPE {q} AS {bt} ("+R.choice([', ',',']).join(vals)+");"
        exp={'schema':s_,'type_name':n,'base_type':bt,'properties':{'values':vals}}
    elif kind=='object':
        attrs=[(f"f{i}",R.choice([('int',None),('varchar',30),('number',(10,2))])) for i in range(R.randint(1,5))]; bt=R.choice(['OBJECT','object'])
        ddl=f"{cr} TYPE {q} AS {bt} ("+", ".join(a+' '+t+(f"({z})" if isinstance(z,int) else f"({z[0]},{z[1]})" if z else '') for a,(t,z) in attrs)+");"
        exp={'schema':s_,'type_name':n,'base_type':bt,'properties':{'attributes':[{'name':a,'type':t,'size':z} for a,(t,z) in attrs]}}
    elif kind=='table':
        cols=[(f"c{i}",R.choice([('int',None),('varchar',10)]),R.choice([None,'NULL','NOT NULL'])) for i in range(R.randint(1,5))]
        ddl=f"{cr} TYPE {q} AS TABLE ("+", ".join(a+' '+t+(f"({z})" if z else '')+(' '+nn if nn else '') for a,(t,z),nn in cols)+");"
        exp={'schema':s_,'type_name':n,'base_type':None,'cols':[(a,t,z,nn!='NOT NULL') for a,(t,z),nn in cols]}
    elif kind=='kv':
        kv=[(R.choice(['INTERNALLENGTH','INPUT','OUTPUT','ALIGNMENT'])+str(i),R.choice(['16','my_in','x_out'])) for i in range(R.randint(1,3))]
        ddl=f"{cr} TYPE {q} ("+", ".join(f"{k} = {v}" for k,v in kv)+");"
        exp={'schema':s_,'type_name':n,'base_type':None,'properties':dict(kv)}
    elif kind=='domain':
        t,z=R.choice([('varchar',10),('CHAR',3),('decimal',(10,2)),('numeric',5)])
        ddl=f"{cr} DOMAIN {q} AS {t}("+(str(z) if isinstance(z,int) else f"{z[0]},{z[1]}")+");"
        exp={'schema':s_,'domain_name':n,'base_type':t}
    elif kind=='schema':
        form=R.choice(['plain','ine','auth','ine_auth','only_auth','comment','comment_eq','ine_comment','replace'])
        u=R.choice(['bob','"Al"','adm1'])
        ddl={'plain':f"{cr} SCHEMA {n};",'ine':f"{cr} SCHEMA IF NOT EXISTS {n};",'auth':f"{cr} SCHEMA {n} AUTHORIZATION {u};",'ine_auth':f"{cr} SCHEMA IF NOT EXISTS {n} AUTHORIZATION {u};",'only_auth':f"{cr} SCHEMA AUTHORIZATION {u};",'comment':f"{cr} SCHEMA {n} COMMENT 'hello w';",'comment_eq':f"{cr} SCHEMA {n} COMMENT = 'hello w';",'ine_comment':f"{cr} SCHEMA IF NOT EXISTS {n} COMMENT 'hello w';",'replace':f"{cr} OR REPLACE SCHEMA {n};"}[form]
        exp={'schema_name': u if form=='only_auth' else n}
        if 'auth' in form: exp['authorization']=u
        if 'comment' in form: exp['comment']="'hello w'"
        if 'ine' in form: exp['if_not_exists']=True
    elif kind=='database':
        form=R.choice(['plain','comment']); ddl=f"{cr} DATABASE {n}"+(" COMMENT 'dbc'" if form=='comment' else '')+";"
        exp={'database_name':n}; 
        if form=='comment': exp['comment']="'dbc'"
    else:
        ty=R.choice([None,'BIGFILE','SMALLFILE','bigfile']); tmp=R.random()<.5
        props=R.choice([[],[('DATAFILE',"'f.dbf'"),('SIZE','10M')],[('TEMPFILE',"'t.dbf'"),('SIZE','5M'),('AUTOEXTEND','ON')]])
        ddl=f"{cr} "+(ty+' ' if ty else '')+('TEMPORARY ' if tmp else '')+f"TABLESPACE {n}"+''.join(f" {k} {v}" for k,v in props)+";"
        exp={'tablespace_name':n,'type':ty,'temporary':tmp,'properties':dict(props) or None}
    use = kind in('enum','object') and R.random()<.5
    full=ddl+"\n"+(f"CREATE TABLE tt (c1 int, c2 {q} NOT NULL, c3 int);\n" if use else "")
    try: r=P(full)
    except Exception as e: fail(('EXC',kind,type(e).__name__),full,str(e)); continue
    if len(r)!=(2 if use else 1): fail(('count',kind),full,r); continue
    e=r[0]
    if kind=='table':
        got=[(c['name'],c['type'],c['size'],c['nullable']) for c in e.get('properties',{}).get('columns',[])]
        if (e.get('schema'),e.get('type_name'))!=(s_,n) or got!=exp['cols']: fail(('diff',kind),full,e)
    else:
        low={k.lower():v for k,v in e.items()}
        for k,v in exp.items():
            if low.get(k)!=v: fail(('diff',kind,k),full,e); break
        else:
            extra=set(low)-set(exp)-{'properties'}
            if kind in('schema','database') and extra: fail(('extra',kind,tuple(sorted(extra))),full,e)
    if use and (r[1]['columns'][1]['type']!=q or [c['name'] for c in r[1]['columns']]!=['c1','c2','c3'] or r[1]['columns'][1]['nullable']): fail(('use',kind),full,r[1]['columns'])
    cnt['ok']+=1
print(cnt)
for k,v in ex.items(): print(k); [print('    ',str(x)[:400]) for x in v]
