from probe import *
import random, collections
R=random.Random(66)
BASE=['id','Name','colTwo','my_col','X9','Order_Id','abc','Zq','select_','tbl','Sch','k1','VAL','nm2']
def mk(kind):
    b=R.choice(BASE)+str(R.randint(0,99))
    st=R.choice(['pl','pl','dq','dqsp','bt','br'])
    if st=='pl': return b
    if st=='dq': return f'"{b}"'
    if st=='dqsp': return f'"{b} x"'
    if st=='bt': return f'`{b}`'
    return f'[{b}]'
def strip(n): 
    return n[1:-1] if len(n)>2 and ((n[0]=='"' and n[-1]=='"') or (n[0]=='`' and n[-1]=='`') or (n[0]=='[' and n[-1]==']')) else n
cnt=collections.Counter(); ex={}
def fail(k,*v): cnt[k]+=1; ex.setdefault(k,v)
for it in range(6000):
    sch=R.choice([None,mk('s')]); tn=mk('t'); n=R.randint(2,5)
    cols=[]
    while len(cols)<n:
        c=mk('c')
        if strip(c).lower() not in [strip(x).lower() for x in cols]: cols.append(c)
    rs,rt,rc=R.choice([None,mk('s')]),mk('t'),mk('c')
    con=mk('k'); idx=mk('i'); seqs,seqn=R.choice([None,mk('s')]),mk('q'); ucon=mk('u'); fkc=mk('f')
    pkc=R.sample(cols,R.randint(1,2)); uqc=R.sample(cols,2); fkcol=R.choice(cols); ixc=R.sample(cols,R.randint(1,2)); dropc=cols[-1]; newc=mk('c')
    q=lambda s,t: (s+'.' if s else '')+t
    # bt schema in CREATE SCHEMA excluded (K17) - not used here
    ddl=f"""CREATE TABLE {q(sch,tn)} (
  {cols[0]} int NOT NULL REFERENCES {q(rs,rt)} ({rc}),
  {', '.join(c+' varchar(10)' for c in cols[1:])},
  CONSTRAINT {con} PRIMARY KEY ({', '.join(pkc)}),
  CONSTRAINT {ucon} UNIQUE ({', '.join(uqc)})
);
CREATE INDEX {idx} ON {q(sch,tn)} ({', '.join(ixc)});
ALTER TABLE {q(sch,tn)} ADD CONSTRAINT {fkc} FOREIGN KEY ({fkcol}) REFERENCES {q(rs,rt)} ({rc});
ALTER TABLE {q(sch,tn)} ADD {newc} int;
CREATE SEQUENCE {q(seqs,seqn)} START 1;
"""
    for nn in (False,True):
        f=(lambda x: strip(x) if x is not None else None) if nn else (lambda x:x)
        try: r=P(ddl,normalize_names=nn)
        except Exception as e: fail(('EXC',nn,type(e).__name__),ddl,str(e)); continue
        if len(r)!=2: fail(('len',nn),ddl,len(r)); continue
        t,s=r
        chk=[('table',t['table_name'],f(tn)),('schema',t['schema'],f(sch)),('cols',[c['name'] for c in t['columns']],[f(c) for c in cols+[newc]]),('pk',t['primary_key'],[f(c) for c in pkc]),
             ('ref',(t['columns'][0]['references']['schema'],t['columns'][0]['references']['table'],t['columns'][0]['references'].get('column')),(f(rs),f(rt),f(rc))),
             ('pkcon',[(x['constraint_name'],x['columns']) for x in t['constraints']['primary_keys']],[(f(con),[f(c) for c in pkc])]),
             ('uqcon',[(x['constraint_name'],x['columns']) for x in t['constraints']['uniques']],[(f(ucon),[f(c) for c in uqc])]),
             ('index',[(i['index_name'],i['columns']) for i in t['index']],[(f(idx),[f(c) for c in ixc])]),
             ('alterfk',[(c['name'],c['constraint_name'],c['references']['table'],c['references']['schema'],c['references']['column']) for c in t['alter']['columns'] if c.get('references')],[(f(fkcol),f(fkc),f(rt),f(rs),f(rc))]),
             ('seq',(s.get('schema'),s.get('sequence_name')),(f(seqs),f(seqn)))]
        for name,got,exp in chk:
            if got!=exp: fail((name,nn),ddl,got,exp)
    cnt['ok']+=1
print(cnt)
for k,v in ex.items(): print(k); [print('    ',str(x)[:500]) for x in v]
