from probe import *
from corpus import corpus
import collections
cnt=collections.Counter(); ex=[]
for name,ddl,kw in corpus():
    ck={k:v for k,v in kw.items() if k in('normalize_names',)}
    try: a=DDLParser(ddl,**ck).run()
    except Exception as e: cnt['silent raises']+=1; ex.append(('S',name,str(e)[:80])); continue
    try: b=DDLParser(ddl,silent=False,**ck).run()
    except Exception as e: cnt['loud raises',type(e).__name__]+=1; ex.append(('L',name,str(e)[:100])); continue
    if a!=b: cnt['differ']+=1; ex.append(('D',name))
    else: cnt['same']+=1
print(cnt)
for e in ex: print(e)
